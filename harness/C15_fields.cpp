// C15 — header field accessors are exact inverses and do not disturb neighbouring fields.
// Exhaustive over the generated (class, field) table x values (every value for parameter types <= 16 bits; bit / lane /
// boundary patterns for wider and address fields) x prior object states.
#include "entry.hpp"
#include "sermon.hpp"
#include "derived.hpp"
#include "explore.hpp"

using namespace mc;
using namespace Tins;

// ---------------------------------------------------------------- value families per parameter type
template <class T, class = void> struct Fam { static const bool scalar = false; static const int width = 0;
    static T bit(int) { return T(); } static T ones() { return T(); }
    static std::vector<T> all() { std::vector<T> v; for (int k = 0; k < nsamples<T>(); ++k) v.push_back(sample<T>(k)); return v; }
    static std::vector<T> probes() { return all(); } };
template <class T> struct Fam<T, typename std::enable_if<std::is_integral<T>::value && !std::is_same<T, bool>::value>::type> {
    static const bool scalar = true; static const int width = sizeof(T) * 8;
    typedef typename std::make_unsigned<T>::type U;
    static std::vector<T> probes() {
        std::vector<T> v; U mx = std::numeric_limits<U>::max();
        for (int i = 0; i < width; ++i) v.push_back((T)(U(1) << i));              // single bits
        for (int i = 0; i < width; ++i) v.push_back((T)(mx ^ (U(1) << i)));       // walking zeros
        for (size_t l = 0; l < sizeof(T); ++l) v.push_back((T)(U(0xff) << (8 * l)));  // byte lanes
        U extra[] = {0, 1, mx, U(mx - 1), U(mx / 3), U(mx / 3 * 2), U(0x0123456789abcdefULL)};
        for (U e : extra) v.push_back((T)e);
        return v;
    }
    static T bit(int i) { return (T)(U(1) << i); }
    static T ones() { return (T)std::numeric_limits<U>::max(); }
    static std::vector<T> all() {
        if (width > 16) return probes();
        std::vector<T> v; for (unsigned long x = 0; x <= (unsigned long)std::numeric_limits<U>::max(); ++x) v.push_back((T)x); return v;
    } };
template <size_t n> struct Fam<small_uint<n>, void> {
    static const bool scalar = true; static const int width = (int)n;
    typedef typename small_uint<n>::repr_type R;
    static std::vector<small_uint<n> > probes() {
        std::vector<small_uint<n> > v; uint64_t mx = (1ull << n) - 1;
        for (size_t i = 0; i < n; ++i) { v.push_back(small_uint<n>((R)(1ull << i))); v.push_back(small_uint<n>((R)(mx ^ (1ull << i)))); }
        v.push_back(small_uint<n>((R)0)); v.push_back(small_uint<n>((R)mx)); v.push_back(small_uint<n>((R)(mx / 3)));
        return v;
    }
    static small_uint<n> bit(int i) { return small_uint<n>((R)(1ull << i)); }
    static small_uint<n> ones() { return small_uint<n>((R)((1ull << n) - 1)); }
    static std::vector<small_uint<n> > all() {
        if (n > 16) return probes();
        std::vector<small_uint<n> > v; for (uint64_t x = 0; x < (1ull << n); ++x) v.push_back(small_uint<n>((R)x)); return v;
    } };
template <> struct Fam<bool, void> { static const bool scalar = true; static const int width = 1;
    static bool bit(int) { return true; } static bool ones() { return true; }
    static std::vector<bool> all() { return {false, true}; } static std::vector<bool> probes() { return all(); } };
template <> struct Fam<IPv4Address, void> { static const bool scalar = true; static const int width = 32;
    static std::vector<IPv4Address> probes() { std::vector<IPv4Address> v; for (int i = 0; i < 32; ++i) { v.push_back(IPv4Address(Endian::host_to_be<uint32_t>(1u << i))); v.push_back(IPv4Address(Endian::host_to_be<uint32_t>(~(1u << i)))); }
        v.push_back(IPv4Address("1.2.3.4")); v.push_back(IPv4Address("255.255.255.255")); return v; }
    static IPv4Address bit(int i) { return IPv4Address(Endian::host_to_be<uint32_t>(1u << i)); } static IPv4Address ones() { return IPv4Address("255.255.255.255"); }
    static std::vector<IPv4Address> all() { return probes(); } };
template <> struct Fam<IPv6Address, void> { static const bool scalar = true; static const int width = 128;
    static std::vector<IPv6Address> probes() { std::vector<IPv6Address> v; for (int i = 0; i < 128; ++i) { uint8_t b[16] = {0}; b[15 - i / 8] = uint8_t(1 << (i % 8)); v.push_back(IPv6Address(b)); }
        v.push_back(IPv6Address("2001:db8::1")); v.push_back(IPv6Address("ffff:ffff:ffff:ffff:ffff:ffff:ffff:ffff")); return v; }
    static IPv6Address bit(int i) { uint8_t b[16] = {0}; b[15 - i / 8] = uint8_t(1 << (i % 8)); return IPv6Address(b); } static IPv6Address ones() { return IPv6Address("ffff:ffff:ffff:ffff:ffff:ffff:ffff:ffff"); }
    static std::vector<IPv6Address> all() { return probes(); } };
template <size_t n> struct Fam<HWAddress<n>, void> { static const bool scalar = true; static const int width = (int)n * 8;
    static std::vector<HWAddress<n> > probes() { std::vector<HWAddress<n> > v; for (size_t i = 0; i < n * 8; ++i) { uint8_t b[n]; memset(b, 0, n); b[n - 1 - i / 8] = uint8_t(1 << (i % 8)); v.push_back(HWAddress<n>(b)); }
        uint8_t f[n]; memset(f, 0xff, n); v.push_back(HWAddress<n>(f)); return v; }
    static HWAddress<n> bit(int i) { uint8_t b[n]; memset(b, 0, n); b[n - 1 - i / 8] = uint8_t(1 << (i % 8)); return HWAddress<n>(b); }
    static HWAddress<n> ones() { uint8_t f[n]; memset(f, 0xff, n); return HWAddress<n>(f); }
    static std::vector<HWAddress<n> > all() { return probes(); } };

// ---------------------------------------------------------------- alias groups: getters that are documented views of the same wire bits
// (deprecated composite accessors and the type-dependent rest-of-header unions); pairs are symmetric
static bool aliased(const std::string& a, const std::string& b) {
    static const char* groups[][20] = {
        {"IP.frag_off", "IP.fragment_offset", "IP.flags", "IP.is_fragmented", 0},
        {"ICMP.id", "ICMP.sequence", "ICMP.gateway", "ICMP.mtu", "ICMP.pointer", "ICMP.length", 0},
        {"ICMP.original_timestamp", "ICMP.address_mask", 0},
        {"ICMPv6.identifier", "ICMPv6.sequence", "ICMPv6.hop_limit", "ICMPv6.router", "ICMPv6.solicited", "ICMPv6.override", "ICMPv6.maximum_response_code", "ICMPv6.length",
         "ICMPv6.router_lifetime", "ICMPv6.managed", "ICMPv6.other", "ICMPv6.home_agent", "ICMPv6.router_pref", 0},
        {"ICMPv6.reachable_time", "ICMPv6.qqic", "ICMPv6.qrv", "ICMPv6.supress", 0},
        {"TCP.flags", "TCP.has_flags", 0},
        {"DHCPv6.msg_type", "DHCPv6.is_relay_message", "DHCPv6.hop_count", "DHCPv6.transaction_id", 0},
        {"Dot11.addr1", "Dot11Data.addr2", "Dot11Data.addr3", "Dot11Data.addr4", "Dot11Data.dst_addr", "Dot11Data.src_addr", "Dot11Data.bssid_addr", "Dot11.to_ds", "Dot11.from_ds", 0},
        {"RTP.padding_size", "RTP.padding_bit", 0},
        {"LLC.dsap", "LLC.group", 0},
        {"LLC.ssap", "LLC.response", 0},
        {"LLC.type", "LLC.send_seq_number", "LLC.receive_seq_number", "LLC.poll_final", "LLC.supervisory_function", "LLC.modifier_function", 0},
        {"RTP.extension_bit", "RTP.extension_profile", "RTP.extension_length", 0},
        {0}};
    for (int g = 0; groups[g][0]; ++g) {
        bool ha = false, hb = false;
        for (int i = 0; groups[g][i]; ++i) { if (a == groups[g][i]) ha = true; if (b == groups[g][i]) hb = true; }
        if (ha && hb) return true;
    }
    return false;
}
static bool has_alias(const std::string& a) {
    static const char* probe[] = {"IP.frag_off", "IP.fragment_offset", "IP.flags", "ICMP.id", "ICMP.sequence", "ICMP.gateway", "ICMP.mtu", "ICMP.pointer", "ICMP.original_timestamp", "ICMP.address_mask",
        "ICMPv6.identifier", "ICMPv6.sequence", "ICMPv6.hop_limit", "ICMPv6.router", "ICMPv6.solicited", "ICMPv6.override", "ICMPv6.maximum_response_code", "ICMPv6.router_lifetime", "ICMPv6.managed",
        "ICMPv6.other", "ICMPv6.home_agent", "ICMPv6.router_pref", "ICMPv6.reachable_time", "ICMPv6.qqic", "ICMPv6.qrv", "ICMPv6.supress", "TCP.flags", "DHCPv6.msg_type", "DHCPv6.hop_count",
        "DHCPv6.transaction_id", "Dot11.addr1", "Dot11Data.addr2", "Dot11Data.addr3", "Dot11Data.addr4", "Dot11.to_ds", "Dot11.from_ds", "RTP.padding_size", "RTP.padding_bit", "LLC.dsap", "LLC.group",
        "LLC.ssap", "LLC.response", "LLC.type", "LLC.send_seq_number", "LLC.receive_seq_number", "LLC.poll_final", "LLC.supervisory_function", "LLC.modifier_function", "RTP.extension_bit",
        "RTP.extension_profile", "RTP.extension_length", "ICMP.length", "ICMPv6.length", 0};
    for (int i = 0; probe[i]; ++i) if (a != probe[i] && aliased(a, probe[i])) return true;
    return false;
}
// raw views of option lists / payload blobs: they legitimately move when a typed field inside them is set
static bool list_key(const std::string& key) { size_t d = key.find('.'); std::string g = key.substr(d + 1); return g == "options" || g == "tags" || g == "headers" || g == "options_payload" || g == "present" || g == "vend"; }
// bytes of the standalone serialization that are derived (checksums / lengths), per class
static uint8_t derived_mask(const std::string& cls, size_t off) {
    auto in = [off](size_t a, size_t b) { return off >= a && off < b; };
    if (cls == "IP") return off == 0 ? 0x0f : (in(2, 4) || in(10, 12) || off == 9) ? 0xff : 0;   // ihl, tot_len, checksum, protocol (0 without payload)
    if (cls == "ICMP" || cls == "ICMPv6") return in(2, 4) ? 0xff : 0;
    if (cls == "TCP") return off == 12 ? 0xf0 : in(16, 18) ? 0xff : 0;                          // data offset, checksum
    if (cls == "UDP") return in(4, 8) ? 0xff : 0;
    if (cls == "IPv6") return in(4, 7) ? 0xff : 0;
    if (cls == "Dot3" || cls == "EthernetII") return in(12, 14) ? 0xff : 0;
    if (cls == "Dot1Q" || cls == "RadioTap") return in(2, 4) ? 0xff : 0;
    if (cls == "PPPoE") return in(4, 6) ? 0xff : 0;
    if (cls == "IPSecAH") return off < 2 ? 0xff : 0;
    if (cls == "SNAP") return in(6, 8) ? 0xff : 0;
    if (cls == "SLL") return in(14, 16) ? 0xff : 0;
    if (cls == "RSNEAPOL" || cls == "RC4EAPOL") return in(2, 4) ? 0xff : 0;
    return 0;
}
static bool derived_byte(const std::string& cls, size_t off) { return derived_mask(cls, off) == 0xff; }
static bool little_endian_class(const std::string& cls) { return cls.compare(0, 5, "Dot11") == 0 || cls == "RadioTap" || cls == "PPI" || cls == "PKTAP" || cls == "Loopback"; }


// ---------------------------------------------------------------- positions assigned by the protocol specifications
// (class.field, MSB-first global bit index of value bit 0 in the layer's own serialization, little-endian numbering?)
// BE: value bit i sits at index g0 - i.  LE (802.11 / RadioTap): little-endian bit number of value bit i = le(g0) + i.
// Sources: RFC 791, 8200, 9293, 768, 792, 826, 3032, 1035, 3550, 7348; IEEE 802.1Q, 802.2 SNAP, 802.11-2012 (8.2.4.1, 11.6.2 EAPOL-Key),
// 802.1D (STP BPDU), RFC 2516, RFC 4302/4303, LINUX_SLL (tcpdump.org).
struct SpecPos { const char* key; long g0; bool le; };
static const SpecPos SPEC_POS[] = {
    {"IP.version", 3, false}, {"IP.tos", 15, false}, {"IP.id", 47, false}, {"IP.fragment_offset", 63, false}, {"IP.frag_off", 63, false}, {"IP.ttl", 71, false},
    {"IP.src_addr", 127, false}, {"IP.dst_addr", 159, false},
    {"IPv6.version", 3, false}, {"IPv6.traffic_class", 11, false}, {"IPv6.flow_label", 31, false}, {"IPv6.hop_limit", 63, false}, {"IPv6.src_addr", 191, false}, {"IPv6.dst_addr", 319, false},
    {"TCP.sport", 15, false}, {"TCP.dport", 31, false}, {"TCP.seq", 63, false}, {"TCP.ack_seq", 95, false}, {"TCP.flags", 111, false}, {"TCP.window", 127, false}, {"TCP.urg_ptr", 159, false},
    {"UDP.sport", 15, false}, {"UDP.dport", 31, false},
    {"ICMP.code", 15, false}, {"ICMP.id", 47, false}, {"ICMP.sequence", 63, false}, {"ICMP.gateway", 63, false}, {"ICMP.mtu", 63, false}, {"ICMP.pointer", 39, false},
    {"Dot1Q.priority", 2, false}, {"Dot1Q.cfi", 3, false}, {"Dot1Q.id", 15, false},
    {"MPLS.label", 19, false}, {"MPLS.experimental", 22, false}, {"MPLS.bottom_of_stack", 23, false}, {"MPLS.ttl", 31, false},
    {"EthernetII.dst_addr", 47, false}, {"EthernetII.src_addr", 95, false}, {"Dot3.dst_addr", 47, false}, {"Dot3.src_addr", 95, false},
    {"ARP.hw_addr_format", 15, false}, {"ARP.prot_addr_format", 31, false}, {"ARP.hw_addr_length", 39, false}, {"ARP.prot_addr_length", 47, false},
    {"ARP.sender_hw_addr", 111, false}, {"ARP.sender_ip_addr", 143, false}, {"ARP.target_hw_addr", 191, false}, {"ARP.target_ip_addr", 223, false},
    {"DNS.id", 15, false}, {"DNS.opcode", 20, false}, {"DNS.authoritative_answer", 21, false}, {"DNS.truncated", 22, false}, {"DNS.recursion_desired", 23, false},
    {"DNS.recursion_available", 24, false}, {"DNS.z", 25, false}, {"DNS.authenticated_data", 26, false}, {"DNS.checking_disabled", 27, false}, {"DNS.rcode", 31, false},
    {"EAPOL.version", 7, false}, {"EAPOL.packet_type", 15, false}, {"EAPOL.type", 39, false},
    {"RSNEAPOL.key_descriptor", 55, false}, {"RSNEAPOL.key_t", 52, false}, {"RSNEAPOL.key_index", 51, false}, {"RSNEAPOL.install", 49, false}, {"RSNEAPOL.key_ack", 48, false},
    {"RSNEAPOL.key_mic", 47, false}, {"RSNEAPOL.secure", 46, false}, {"RSNEAPOL.error", 45, false}, {"RSNEAPOL.request", 44, false}, {"RSNEAPOL.encrypted", 43, false},
    {"RSNEAPOL.replay_counter", 135, false},
    {"RC4EAPOL.replay_counter", 119, false}, {"RC4EAPOL.key_flag", 248, false}, {"RC4EAPOL.key_index", 255, false},
    {"Dot11.protocol", 7, false}, {"Dot11.type", 5, false}, {"Dot11.subtype", 3, false}, {"Dot11.to_ds", 15, false}, {"Dot11.from_ds", 14, false}, {"Dot11.more_frag", 13, false},
    {"Dot11.retry", 12, false}, {"Dot11.power_mgmt", 11, false}, {"Dot11.more_data", 10, false}, {"Dot11.wep", 9, false}, {"Dot11.order", 8, false},
    {"Dot11.duration_id", 23, true}, {"Dot11.addr1", 79, false},
    {"SNAP.control", 23, false}, {"SNAP.org_code", 47, false},
    {"SLL.packet_type", 15, false}, {"SLL.lladdr_type", 31, false}, {"SLL.lladdr_len", 47, false}, {"SLL.address", 111, false},
    {"PPPoE.version", 3, false}, {"PPPoE.type", 7, false}, {"PPPoE.code", 15, false}, {"PPPoE.session_id", 31, false},
    {"IPSecAH.spi", 63, false}, {"IPSecAH.seq_number", 95, false}, {"IPSecESP.spi", 31, false}, {"IPSecESP.seq_number", 63, false},
    {"RTP.version", 1, false}, {"RTP.extension_bit", 3, false}, {"RTP.marker_bit", 8, false}, {"RTP.payload_type", 15, false}, {"RTP.sequence_number", 31, false},
    {"RTP.timestamp", 63, false}, {"RTP.ssrc_id", 95, false},
    {"STP.proto_id", 15, false}, {"STP.proto_version", 23, false}, {"STP.bpdu_type", 31, false}, {"STP.bpdu_flags", 39, false}, {"STP.root_path_cost", 135, false}, {"STP.port_id", 215, false},
    {"BootP.opcode", 7, false}, {"BootP.htype", 15, false}, {"BootP.hlen", 23, false}, {"BootP.hops", 31, false}, {"BootP.xid", 63, false}, {"BootP.secs", 79, false}, {"BootP.padding", 95, false},
    {"BootP.ciaddr", 127, false}, {"BootP.yiaddr", 159, false}, {"BootP.siaddr", 191, false}, {"BootP.giaddr", 223, false},
    {"LLC.dsap", 7, false}, {"LLC.ssap", 15, false},
    {0, 0, false}};
static const SpecPos* spec_pos(const std::string& key) { for (int i = 0; SPEC_POS[i].key; ++i) if (key == SPEC_POS[i].key) return &SPEC_POS[i]; return 0; }

static std::map<std::string, std::string> snapshot(const PDU& p) { std::map<std::string, std::string> m; View v; view_layer(p, v, 0); for (auto& e : v) m[e.key] = e.val; return m; }

static Bytes ser(PDU& p) {
    if (needs_environment(p)) return Bytes();
    return p.serialize();
}

struct FieldInfo { std::string cls, name; std::set<long> bits; };
static std::vector<FieldInfo> g_fields;
static std::vector<long> g_last_pos; static bool g_last_pos_ok = false;   // per job: bit sets of the scalar fields of the classes it handled

// priors: 0 default object; 1 every scalar settable field at its maximum sample; 2 alternating bit pattern; 3 parsed from an all-ones buffer
static PDU* apply_prior(PDU* o, int which) {
        if (!o) return 0;
        if (which == 0) return o;
        if (which == 3) {
            // a PARSED object whose every header bit is 1 (bits no setter reaches included); 0 when the class refuses such a buffer
            std::vector<uint8_t> buf(o->size() + 16, 0xff);
            PDU* r = 0;
#define API_BUFCTOR(Q2, T2) if (!r && typeid(*o) == typeid(Q2)) { try { r = new Q2(buf.data(), (uint32_t)buf.size()); } catch (std::exception& e_) { if (!mc::tins_exc(e_)) { delete o; throw; } } }
#include "api.inc"
#undef API_BUFCTOR
            delete o;
            return r;
        }
        // 1: every settable field of the object at its maximum sample; 2: alternating bit pattern
        int k = which == 1 ? 2 : 5;
        // apply all generated setters that fit this dynamic type
#define API_PAIR(Q2, T2, N2, A2, R2) if (Q2* q2 = dynamic_cast<Q2*>(o)) { typedef decltype(setter_arg(&Q2::N2)) A_; if (nsamples<A_>() && Fam<A_>::scalar) { try { q2->N2(sample<A_>(k)); } catch (std::exception& e_) { if (!mc::tins_exc(e_)) throw;} } }
#include "api.inc"
#undef API_PAIR
        return o;
}

// One instantiation per VALUE type (not per class): the class-specific parts are the two type-erased callables.
template <class V> struct Runner {
    const char* T; const char* N;
    std::function<PDU*()> make;
    std::function<void(PDU&, const V&)> setv;
    std::string key() const { return std::string(T) + "." + N; }
    PDU* prior(int which) { return apply_prior(make(), which); }
    // minimal stand-in so that the body below keeps its shape: (q.*set)(v) == setv(q, v)
    struct SetProxy { const Runner* r; };
    void run(bool thorough, uint64_t& idx) {
        std::string k = key();
        std::vector<V> vals = Fam<V>::all();
        std::vector<V> probes = Fam<V>::probes();
        if (vals.empty()) { R.count("fields_without_domain"); R.info["nodomain:" + k] = "true"; return; }
        if (!Fam<V>::scalar) { R.count("fields_aggregate_left_to_C04"); return; }     // the property is about scalar header fields
        {   // a header field does not change the layer's size nor its raw option / tag lists (those setters are option encoders: C04, C11)
            std::unique_ptr<PDU> t(prior(0));
            if (!t) { R.count("fields_uninstantiable"); return; }
            auto s0 = snapshot(*t);
            try { setv(*t, probes[0]); } catch (std::exception& e_) { if (!mc::tins_exc(e_)) throw;}
            auto s1 = snapshot(*t);
            bool optionlike = false;
            for (auto& kv : s0) if ((list_key(kv.first) || (kv.first.size() > 12 && kv.first.compare(kv.first.size() - 12, 12, ".header_size") == 0)) && s1[kv.first] != kv.second) optionlike = true;
            if (optionlike) { R.count("fields_option_encoders_left_to_C04"); return; }
        }
        bool derived_field = always_derived(k) || protocol_tag(k);
        R.count("fields");
        R.dist("distinct_nontrivial", fnv(k));
        // (prior 3, an object parsed from an all-ones buffer, is available through apply_prior but not swept: such an object has another message
        // type and carries bits no setter owns - STP timer fractions, LLC formats - which the setter-derived bit sets cannot judge)
        for (int pr = 0; pr < 3; ++pr) {
            std::unique_ptr<PDU> o(prior(pr));
            if (!o) { R.count("fields_uninstantiable"); return; }
            PDU& q = *o;
            std::string ctx = "field=" + k + " prior=" + std::to_string(pr);
            // (a) exact inverse or clean rejection, for every value of the family
            auto base = snapshot(*o);
            size_t vi = 0;
            for (const V& v : vals) {
                uint64_t my = idx++;
                ++vi;
                if (skipped(my)) continue;
                if ((vi & 0x3ff) == 1) set_case(my, "C15", ctx + " value=" + show(v));
                Mon::reset();
                bool threw = false;
                try { setv(q, v); } catch (std::exception& e_) { if (!mc::tins_exc(e_)) throw; threw = true; }
                R.count("evaluations");
                std::string got;
                try { got = getter_value(*o, k); } catch (exception_base& e) { got = std::string("!") + typeid(e).name(); }
                if (threw) {
                    if (snapshot(*o) != base) R.violation("field:rejected-but-changed:" + k, "setter threw but the object changed", ctx + " value=" + show(v));
                } else if (got != show(v)) {
                    R.violation("field:not-inverse:" + k, "set " + show(v) + " got " + got, ctx + " value=" + show(v));
                    break;
                }
                if (Mon::errors) R.violation(Mon::first, Mon::first_detail, ctx + " value=" + show(v));
                if (!threw) base[k] = got;
            }
            // (b) no other getter moves; (c) serialized bits: on the probe values, against the all-zero and the all-ones baseline
            if (!Fam<V>::scalar) continue;
            FieldInfo fi{T, N, {}};
            std::string cls = clsname(*o);
            bool fi_ok = true;
            const int w = Fam<V>::width;
            int weff = w;
            for (int bl = 0; bl < 2 && fi_ok; ++bl) {
                V basev = bl ? Fam<V>::ones() : V();
                std::vector<long> pos(w, -1);
                std::vector<char> rejected(w, 0);      // single-bit values the setter refuses (field narrower than its parameter type)
                std::vector<V> pv = probes;
                for (int i = 0; i < w; ++i) pv.insert(pv.begin() + i, Fam<V>::bit(i));     // first w probes: single bits in order
                for (size_t pi = 0; pi < pv.size() && fi_ok; ++pi) {
                    const V& v = pv[pi];
                    std::unique_ptr<PDU> a(prior(pr)), b(prior(pr));
                    PDU& qa = *a; PDU& qb = *b;
                    auto s0 = snapshot(*a);            // the prior state, before the field is touched
                    try { setv(qa, basev); setv(qb, v); } catch (std::exception& e_) { if (!mc::tins_exc(e_)) throw; if (bl == 0 && (int)pi < w) rejected[pi] = 1; continue; }
                    auto sa = snapshot(*a), sb = snapshot(*b);
                    // no other getter may move relative to the PRIOR state (a setter that clobbers a neighbour does so for every value)
                    for (auto& kv : s0) {
                        if (kv.first == k || aliased(kv.first, k) || always_derived_key(kv.first) || list_key(kv.first)) continue;
                        if (sb[kv.first] != kv.second) {
                            R.violation("field:disturbs-neighbour:" + k + "->" + kv.first, kv.first + " changed from " + kv.second + " to " + sb[kv.first] + " when " + k + " was set to " + show(v), ctx + " value=" + show(v));
                            fi_ok = false;
                        }
                    }
                    if (!fi_ok) break;
                    for (auto& kv : sa) {
                        if (kv.first == k || aliased(kv.first, k) || always_derived_key(kv.first) || list_key(kv.first)) continue;
                        if (sb[kv.first] != kv.second) {
                            R.violation("field:disturbs-neighbour:" + k + "->" + kv.first, kv.first + " changed from " + kv.second + " to " + sb[kv.first] + " when " + k + " went from " + show(basev) + " to " + show(v), ctx + " value=" + show(v));
                            fi_ok = false;
                        }
                    }
                    if (!fi_ok) break;
                    if (derived_field) continue;      // overwritten by write_serialization: nothing to locate on the wire
                    Bytes ya, yb;
                    bool oka = true, okb = true;
                    try { ya = ser(*a); } catch (std::exception& e_) { if (!mc::tins_exc(e_)) throw; oka = false; }
                    try { yb = ser(*b); } catch (std::exception& e_) { if (!mc::tins_exc(e_)) throw; okb = false; }
                    if (!oka || !okb) {
                        // the serialization must follow the setter: if the prior state serializes and the same value set on a default
                        // object serializes, then a failure here means the setter left the object in a state that depends on its history
                        const V& bad = !oka ? basev : v;
                        bool p_ok = true, d_ok = true;
                        { std::unique_ptr<PDU> p(prior(pr)); try { (void)ser(*p); } catch (std::exception&) { p_ok = false; } }
                        { std::unique_ptr<PDU> d(prior(0)); try { setv(*d, bad); (void)ser(*d); } catch (std::exception&) { d_ok = false; } }
                        if (pr != 0 && p_ok && d_ok) {
                            R.violation("field:unserializable-after-set:" + k, "the prior state serializes and " + k + "=" + show(bad) + " on a default object serializes, but not the prior state with " + k + " set to " + show(bad), ctx + " value=" + show(bad));
                            fi_ok = false;
                        } else R.count("serialization_refused_states");
                        continue;
                    }
                    if (ya.empty() || ya.size() != yb.size()) continue;
                    R.count("serializations", 2);
                    std::vector<long> diff;
                    for (size_t i = 0; i < ya.size(); ++i) {
                        uint8_t x = (ya[i] ^ yb[i]) & ~derived_mask(cls, i);
                        for (int bit = 7; bit >= 0; --bit) if (x >> bit & 1) diff.push_back((long)(i * 8 + (7 - bit)));   // global MSB-first bit index
                    }
                    fi.bits.insert(diff.begin(), diff.end());
                    if (bl == 0 && (int)pi < w && !std::is_enum<V>::value) {
                        if (diff.size() == 1) pos[pi] = diff[0];
                        else if (diff.empty()) pos[pi] = -1;
                        else { R.violation("field:single-bit-not-single:" + k, "value bit " + std::to_string(pi) + " changes " + std::to_string(diff.size()) + " serialized bits", ctx + " value=" + show(v)); fi_ok = false; }
                    }
                }
                if (bl == 0 && fi_ok && !derived_field && !std::is_enum<V>::value) {
                    int onwire = 0, accepted = 0;
                    for (int i = 0; i < w; ++i) { if (!rejected[i]) ++accepted; if (pos[i] >= 0) ++onwire; }
                    weff = accepted;
                    if (onwire == 0) { if (pr == 0) R.count("fields_not_on_wire_for_default_message_type"); fi_ok = false; }
                    else if (onwire != accepted) {
                        int miss = 0; while (miss < w && (pos[miss] >= 0 || rejected[miss])) ++miss;
                        R.violation("field:value-bit-not-serialized:" + k, "value bit " + std::to_string(miss) + " of " + std::to_string(w) + " never reaches the wire although other bits do", ctx);
                        fi_ok = false;
                    }
                }
                if (bl == 0) { g_last_pos = pos; g_last_pos_ok = fi_ok && !derived_field && !std::is_enum<V>::value; }
                if (bl == 0 && fi_ok && weff > 1 && pos[0] >= 0 && !std::is_enum<V>::value) {
                    bool be = true, le = true;
                    auto le_index = [](long g) { return (g / 8) * 8 + (7 - g % 8); };     // little-endian bit numbering of an MSB-first index
                    for (int i = 0; i < w; ++i) {
                        if (rejected[i]) continue;
                        if (pos[i] != pos[0] - i) be = false;
                        if (le_index(pos[i]) != le_index(pos[0]) + i) le = false;
                    }
                    if (!(be || (le && little_endian_class(cls))))
                        R.violation(std::string("field:bit-order:") + k, std::string("value bits are not laid out contiguously in ") + (little_endian_class(cls) ? "little- or big-endian" : "network (big-endian)") + " order; bit0 at " + std::to_string(pos[0]) + " bit" + std::to_string(w - 1) + " at " + std::to_string(pos[w - 1]), ctx);
                }
            }
            // diff(serialize(before), serialize(after)) is inside the field's own bits (and derived bytes): compare the prior state itself with
            // the prior state after set(0); fields that are documented views of shared bits (alias groups) are left out
            if (fi_ok && !derived_field && !fi.bits.empty() && !std::is_enum<V>::value && !has_alias(k)) {
                std::unique_ptr<PDU> p0(prior(pr)), p1(prior(pr));
                bool ok = p0 && p1;
                if (ok) { try { setv(*p1, V()); } catch (std::exception& e_) { if (!mc::tins_exc(e_)) throw; ok = false; } }
                Bytes y0, y1;
                if (ok) { try { y0 = ser(*p0); y1 = ser(*p1); } catch (std::exception& e_) { if (!mc::tins_exc(e_)) throw; ok = false; } }
                if (ok && !y0.empty() && y0.size() == y1.size()) {
                    R.count("before_after_serializations");
                    for (size_t i = 0; i < y0.size() && ok; ++i) {
                        uint8_t x = (y0[i] ^ y1[i]) & ~derived_mask(cls, i);
                        for (int bit = 7; bit >= 0; --bit) if ((x >> bit & 1) && !fi.bits.count((long)(i * 8 + (7 - bit)))) {
                            R.violation("field:serialization-disturbs-other-bits:" + k, "setting " + k + " to 0 changes serialized bit " + std::to_string(i * 8 + (7 - bit)) + ", which is not one of the field's " + std::to_string(fi.bits.size()) + " bits", ctx);
                            ok = false; break;
                        }
                    }
                }
            }
            if (pr == 0 && fi_ok && g_last_pos_ok) {
                if (const SpecPos* sp = spec_pos(k)) {
                    R.count("fields_checked_against_spec_position");
                    auto le_index = [](long g) { return (g / 8) * 8 + (7 - g % 8); };
                    for (int i = 0; i < w; ++i) {
                        if (g_last_pos[i] < 0) continue;
                        long want = sp->le ? -1 : sp->g0 - i;
                        bool ok = sp->le ? (le_index(g_last_pos[i]) == le_index(sp->g0) + i) : (g_last_pos[i] == want);
                        if (!ok) { R.violation("field:wire-position:" + k, "value bit " + std::to_string(i) + " is serialized at bit index " + std::to_string(g_last_pos[i]) + " (MSB-first, from the start of the layer), the specification puts it at " + (sp->le ? "little-endian offset " + std::to_string(i) + " from index " + std::to_string(sp->g0) : std::to_string(want)), ctx); break; }
                    }
                }
            }
            if (pr == 0 && fi_ok) {
                if (!fi.bits.empty() && (int)fi.bits.size() != weff && !std::is_enum<V>::value)
                    R.violation("field:wire-width:" + k, "field of accepted width " + std::to_string(weff) + " occupies " + std::to_string(fi.bits.size()) + " wire bits", ctx);
                g_fields.push_back(fi);
            }
        }
    }
    static bool all_derived(const std::string& cls, size_t n) { for (size_t i = 0; i < n; ++i) if (!derived_byte(cls, i)) return false; return true; }

    static bool always_derived_key(const std::string& key) {
        size_t dot = key.find('.');
        std::string g = key.substr(dot + 1);
        return g == "header_size" || g == "trailer_size" || g == "size" || g == "advertised_size" || g == "pdu_type";
    }
    static std::string getter_value(const PDU& p, const std::string& key) {
        const auto& t = getter_table();
        for (int i : getters_of(p)) if (key == t[i].key) return t[i].call(p);
        return "<no getter>";
    }
};

template <class C, class A> A setter_param(void (C::*)(A));
template <class Q, class A> Runner<typename std::decay<A>::type> make_runner(const char* T, const char* N, void (Q::*set)(A)) {
    typedef typename std::decay<A>::type V;
    return Runner<V>{T, N, []() -> PDU* { return make_default((Q*)0); }, [set](PDU& p, const V& v) { (static_cast<Q&>(p).*set)(v); }};
}

struct Job { std::function<void(bool, uint64_t&)> fn; std::string key; };
static std::vector<Job> jobs() {
    std::vector<Job> v;
#define API_PAIR(Q, T, N, A, R) { typedef decltype(setter_param(&Q::N)) P_; typedef void (Q::*S_)(P_); \
    v.push_back(Job{[](bool th, uint64_t& idx) { auto r = make_runner<Q, P_>(#T, #N, static_cast<S_>(&Q::N)); r.run(th, idx); }, #T "." #N}); }
#include "api.inc"
#undef API_PAIR
    return v;
}

// ---- the width-limited integer every sub-byte / odd-width setter takes: small_uint<n>(v) is where "too large is rejected, not truncated"
// is decided, for every width (the setters' parameter type makes an over-range value unrepresentable, so the sweep above cannot pass one).
// Every n in 1..63: exhaustive over the representation type when it has <= 16 bits, boundary / single-bit / lane patterns above.
template <size_t n> static void small_uint_case() {
    typedef typename small_uint<n>::repr_type Rep;
    const int rbits = (int)sizeof(Rep) * 8;
    const uint64_t mx = (1ull << n) - 1, rmax = rbits >= 64 ? ~0ull : ((1ull << rbits) - 1);
    auto probe = [&](uint64_t v) {
        if (v > rmax) return;
        bool threw = false; uint64_t got = 0;
        try { small_uint<n> x((Rep)v); got = (uint64_t)(Rep)x; } catch (std::exception& e_) { if (!mc::tins_exc(e_)) throw; threw = true; }
        R.count("small_uint_values");
        if (v <= mx) { if (threw || got != v) R.violation("field:small-uint:in-range-value-lost:" + std::to_string(n), "small_uint<" + std::to_string(n) + ">(" + std::to_string(v) + ") " + (threw ? "throws" : "holds " + std::to_string(got)), "field=small_uint width=" + std::to_string(n)); }
        else if (!threw) R.violation("field:small-uint:over-range-accepted:" + std::to_string(n), "small_uint<" + std::to_string(n) + ">(" + std::to_string(v) + ") is accepted and holds " + std::to_string(got) + " (maximum " + std::to_string(mx) + ")", "field=small_uint width=" + std::to_string(n));
    };
    if (rbits <= 16) { for (uint64_t v = 0; v <= rmax; ++v) probe(v); return; }
    probe(0); probe(1); probe(mx); probe(mx - 1); probe(mx + 1); probe(mx + 2); probe(rmax); probe(rmax - 1); probe(mx / 3); probe(mx / 3 * 2);
    for (int b = 0; b < rbits; ++b) { probe(1ull << b); probe((1ull << b) | 1); probe(mx | (1ull << b)); probe((mx >> 1) + (1ull << b)); probe(rmax ^ (1ull << b)); }
    for (int lane = 0; lane < rbits / 8; ++lane) { probe(0xffull << (8 * lane)); probe(0x80ull << (8 * lane)); probe(0x01ull << (8 * lane)); }
}
template <size_t n> struct SmallUints { static void run() { SmallUints<n - 1>::run(); small_uint_case<n>(); } };
template <> struct SmallUints<0> { static void run() {} };

// ---- re-setting the current value is a no-op on the wire: for every accepted seed packet, every layer and every scalar (setter, getter) pair
// of its class: x.f(x.f()) must leave the serialization unchanged. A parsed object carries bits no setter owns (reserved bits, sub-fields
// without accessors); a setter that rebuilds its word from a too-narrow mask loses them even when handed the value that is already there.
template <class C, class A> A sp_(void (C::*)(A));
struct ResetJob { const char* key; bool (*applies)(PDU&); bool (*call)(PDU&); };
static std::vector<ResetJob>& reset_table() { static std::vector<ResetJob> v; return v; }
static bool reg_reset(const char* key, bool (*ap)(PDU&), bool (*call)(PDU&), bool scalar) { if (scalar) reset_table().push_back(ResetJob{key, ap, call}); return true; }
#define MC_CAT2(a, b) a##b
#define MC_CAT(a, b) MC_CAT2(a, b)
// one pair per line of api.inc, so __LINE__ names it; the expression x.N(x.N()) decides by SFINAE whether the getter's value can be handed back
#define API_PAIR(Q, T, N, A, R) \
    template <class X> auto MC_CAT(rs_, __LINE__)(X& x, int) -> decltype(x.N(x.N()), bool()) { x.N(x.N()); return true; } \
    template <class X> bool MC_CAT(rs_, __LINE__)(X&, long) { return false; } \
    static bool MC_CAT(rsa_, __LINE__)(PDU& p) { return dynamic_cast<Q*>(&p) != 0; } \
    static bool MC_CAT(rsc_, __LINE__)(PDU& p) { return MC_CAT(rs_, __LINE__)(static_cast<Q&>(p), 0); } \
    static const bool MC_CAT(rsr_, __LINE__) = reg_reset(#T "." #N, &MC_CAT(rsa_, __LINE__), &MC_CAT(rsc_, __LINE__), Fam<typename std::decay<decltype(sp_(&Q::N))>::type>::scalar);
#include "api.inc"
#undef API_PAIR
static void reset_family(int job, int njobs) {
    auto eps = entry_points();
    auto corpus = seed_corpus(grammar(3));
    auto& table = reset_table();
    size_t n = 0;
    for (auto& ep : eps) {
        if (!ep.serializable) continue;
        for (auto& sd : corpus[ep.name]) {
            if (n++ % (size_t)njobs != (size_t)job) continue;
          // the seed itself, then the seed with one of its first 32 bytes set to ff / its bits inverted (reserved bits and sub-fields without accessors)
          for (int var = -1; var < 64; ++var) {
            Bytes in = sd.bytes;
            if (var >= 0) { size_t pos = (size_t)(var / 2); if (pos >= in.size()) break; uint8_t nb = (var & 1) ? (uint8_t)~in[pos] : 0xff; if (nb == in[pos]) continue; in[pos] = nb; }
            std::unique_ptr<PDU> p;
            try { p.reset(ep.fn(in.data(), (uint32_t)in.size())); } catch (std::exception& e_) { if (!mc::tins_exc(e_)) throw; continue; }
            if (!p || needs_environment(*p) || has_unserializable(*p)) continue;
            Bytes y0; try { y0 = std::unique_ptr<PDU>(p->clone())->serialize(); } catch (std::exception&) { continue; }
            int depth = 0;
            for (PDU* l = p.get(); l; l = l->inner_pdu(), ++depth)
                for (auto& rj : table) {
                    if (!rj.applies(*l)) continue;
                    std::string k = rj.key;
                    if (always_derived(k) || protocol_tag(k)) continue;
                    // lossy by API design (STP timers: whole seconds in, 1/256 s on the wire) or presence-managed (RadioTap fields: C11's subject)
                    if (k.compare(0, 4, "STP.") == 0 || k.compare(0, 9, "RadioTap.") == 0) continue;
                    std::unique_ptr<PDU> c(p->clone());
                    PDU* cl = c.get(); for (int i = 0; i < depth; ++i) cl = cl->inner_pdu();
                    uint32_t hs = cl->header_size();
                    bool done = false;
                    try { done = rj.call(*cl); } catch (std::exception& e_) { if (!mc::tins_exc(e_)) throw; continue; }
                    if (!done) { R.count("reset_pairs_without_conversion"); continue; }
                    if (cl->header_size() != hs) { R.count("reset_option_encoders_skipped"); continue; }
                    Bytes y1; try { y1 = c->serialize(); } catch (std::exception&) { continue; }
                    R.count("reset_evaluations");
                    if (y1 != y0) {
                        size_t i = 0; while (i < y0.size() && i < y1.size() && y0[i] == y1[i]) ++i;
                        R.violation("field:reset-changes-wire:" + k, "x." + k.substr(k.find('.') + 1) + "(x." + k.substr(k.find('.') + 1) + "()) on a parsed packet changes its serialization at byte " + std::to_string(i) + " (" + hex(y0).substr(0, 120) + " -> " + hex(y1).substr(0, 120) + ")", "field=reset:" + k + " entry=" + ep.name + " seed=" + sd.origin + " var=" + std::to_string(var));
                    }
                }
          }
        }
    }
}

// ---- indexed flag accessors: TCP::set_flag(flag, v) / get_flag(flag) are setter and getter of eight one-bit fields selected by an argument;
// the generated (setter, same-named getter) table cannot hold them. Every flag x value x prior: only that bit of flags() and of the wire changes.
static void tcp_flag_family() {
    static const TCP::Flags fl[8] = {TCP::FIN, TCP::SYN, TCP::RST, TCP::PSH, TCP::ACK, TCP::URG, TCP::ECE, TCP::CWR};
    for (int pr = 0; pr < 3; ++pr) for (int f = 0; f < 8; ++f) for (int v = 0; v < 2; ++v) {
        std::unique_ptr<PDU> o(apply_prior(new TCP(), pr));
        if (!o) continue;
        TCP& t = static_cast<TCP&>(*o);
        std::string ctx = "field=TCP.set_flag prior=" + std::to_string(pr) + " flag=" + std::to_string((int)fl[f]) + " value=" + std::to_string(v);
        auto s0 = snapshot(t); Bytes y0 = std::unique_ptr<PDU>(t.clone())->serialize();     // on a clone: serializing rewrites derived fields
        uint16_t before = t.flags();
        t.set_flag(fl[f], v);
        R.count("evaluations");
        uint16_t want = (uint16_t)((before & ~(uint16_t)fl[f]) | (v ? (uint16_t)fl[f] : 0));
        if ((int)t.get_flag(fl[f]) != v) R.violation("field:not-inverse:TCP.set_flag", "get_flag returns " + std::to_string((int)t.get_flag(fl[f])), ctx);
        else if (t.flags() != want) R.violation("field:disturbs-neighbour:TCP.set_flag->TCP.flags", "flags() went from " + std::to_string(before) + " to " + std::to_string((int)t.flags()) + ", expected " + std::to_string(want), ctx);
        auto s1 = snapshot(t);
        for (auto& kv : s0) if (kv.first != "TCP.flags" && kv.first != "TCP.has_flags" && s1[kv.first] != kv.second) { R.violation("field:disturbs-neighbour:TCP.set_flag->" + kv.first, kv.first + " changed from " + kv.second + " to " + s1[kv.first], ctx); break; }
        Bytes y1 = std::unique_ptr<PDU>(t.clone())->serialize();
        int nd = 0;
        for (size_t i = 0; i < y0.size() && i < y1.size(); ++i) nd += __builtin_popcount((uint8_t)((y0[i] ^ y1[i]) & ~derived_mask("TCP", i)));
        if (y0.size() != y1.size() || nd != (before != want ? 1 : 0)) R.violation("field:serialization-disturbs-other-bits:TCP.set_flag", std::to_string(nd) + " serialized bits change", ctx);
    }
}

int main(int argc, char** argv) {
    const int NJ = 64;
    return run_main(argc, argv, NJ, NJ,
        [&](int job) {
            auto js = jobs();
            uint64_t idx = 0;
            if (job == 0) R.count("field_pairs_in_table", js.size());
            if (job == NJ - 1) { SmallUints<63>::run(); R.count("small_uint_widths", 63); }
            if (job == NJ - 2) tcp_flag_family();
            reset_family(job, NJ);
            for (size_t i = job; i < js.size(); i += NJ) {
                js[i].fn(A.thorough(), idx);
                if (deadline_reached()) { R.flags["exhaustive"] = false; break; }
            }
            // (c) disjointness between the fields of one class handled by this job is checked in the driver-less way:
            // overlapping bit sets of two non-aliased fields of the same class
            for (size_t a = 0; a < g_fields.size(); ++a)
                for (size_t b = a + 1; b < g_fields.size(); ++b) {
                    if (g_fields[a].cls != g_fields[b].cls) continue;
                    std::string ka = g_fields[a].cls + "." + g_fields[a].name, kb = g_fields[b].cls + "." + g_fields[b].name;
                    if (aliased(ka, kb)) continue;
                    for (long bit : g_fields[a].bits) if (g_fields[b].bits.count(bit)) { R.violation("field:wire-bits-overlap:" + ka + "&" + kb, "both fields write serialized bit " + std::to_string(bit), "field=" + ka); break; }
                }
            if (job == 0) R.sample(jstr("field=IP.ttl prior=0 value=0..255 ; field=IPv6.flow_label prior=1 probes=single bits"));
        },
        [&](const std::string& kase) -> int {
            auto kv = parse_kv(kase);
            uint64_t idx = 0;
            if (kv["field"] == "small_uint") SmallUints<63>::run();
            if (kv["field"] == "TCP.set_flag") tcp_flag_family();
            for (auto& j : jobs()) if (j.key == kv["field"]) j.fn(true, idx);
            for (auto& v : R.violations) { printf("violation reproduced: %s | %s | %s\n", v.first.c_str(), v.second.detail.c_str(), v.second.kase.c_str()); return 1; }
            printf("no violation for field %s\n", kv["field"].c_str());
            return 0;
        });
}
