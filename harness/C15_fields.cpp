// C15 — header field accessors are exact inverses and do not disturb neighbouring fields.
// Exhaustive over the generated (class, field) table x values (every value for parameter types <= 16 bits; bit / lane /
// boundary patterns for wider and address fields) x prior object states.
#include "entry.hpp"
#include "sermon.hpp"
#include "explore.hpp"

using namespace mc;
using namespace Tins;

// ---------------------------------------------------------------- value families per parameter type
template <class T, class = void> struct Fam { static const bool scalar = false; static const int width = 0;
    static T bit(int) { return T(); } static T ones() { return T(); }
    static std::vector<T> all() { std::vector<T> v; for (int k = 0; k < nsamples<T>(); ++k) v.push_back(sample<T>(k)); return v; }
    static std::vector<T> probes() { return all(); } };
template <class T> struct Fam<T, typename std::enable_if<std::is_integral<T>::value && !std::is_same<T, bool>::value>::type> {
    static const bool scalar = true; static const int width = sizeof(T) * 8;
    typedef typename std::make_unsigned<T>::type U;
    static std::vector<T> probes() {
        std::vector<T> v; U mx = std::numeric_limits<U>::max();
        for (int i = 0; i < width; ++i) v.push_back((T)(U(1) << i));              // single bits
        for (int i = 0; i < width; ++i) v.push_back((T)(mx ^ (U(1) << i)));       // walking zeros
        for (size_t l = 0; l < sizeof(T); ++l) v.push_back((T)(U(0xff) << (8 * l)));  // byte lanes
        U extra[] = {0, 1, mx, U(mx - 1), U(mx / 3), U(mx / 3 * 2), U(0x0123456789abcdefULL)};
        for (U e : extra) v.push_back((T)e);
        return v;
    }
    static T bit(int i) { return (T)(U(1) << i); }
    static T ones() { return (T)std::numeric_limits<U>::max(); }
    static std::vector<T> all() {
        if (width > 16) return probes();
        std::vector<T> v; for (unsigned long x = 0; x <= (unsigned long)std::numeric_limits<U>::max(); ++x) v.push_back((T)x); return v;
    } };
template <size_t n> struct Fam<small_uint<n>, void> {
    static const bool scalar = true; static const int width = (int)n;
    typedef typename small_uint<n>::repr_type R;
    static std::vector<small_uint<n> > probes() {
        std::vector<small_uint<n> > v; uint64_t mx = (1ull << n) - 1;
        for (size_t i = 0; i < n; ++i) { v.push_back(small_uint<n>((R)(1ull << i))); v.push_back(small_uint<n>((R)(mx ^ (1ull << i)))); }
        v.push_back(small_uint<n>((R)0)); v.push_back(small_uint<n>((R)mx)); v.push_back(small_uint<n>((R)(mx / 3)));
        return v;
    }
    static small_uint<n> bit(int i) { return small_uint<n>((R)(1ull << i)); }
    static small_uint<n> ones() { return small_uint<n>((R)((1ull << n) - 1)); }
    static std::vector<small_uint<n> > all() {
        if (n > 16) return probes();
        std::vector<small_uint<n> > v; for (uint64_t x = 0; x < (1ull << n); ++x) v.push_back(small_uint<n>((R)x)); return v;
    } };
template <> struct Fam<bool, void> { static const bool scalar = true; static const int width = 1;
    static bool bit(int) { return true; } static bool ones() { return true; }
    static std::vector<bool> all() { return {false, true}; } static std::vector<bool> probes() { return all(); } };
template <> struct Fam<IPv4Address, void> { static const bool scalar = true; static const int width = 32;
    static std::vector<IPv4Address> probes() { std::vector<IPv4Address> v; for (int i = 0; i < 32; ++i) { v.push_back(IPv4Address(Endian::host_to_be<uint32_t>(1u << i))); v.push_back(IPv4Address(Endian::host_to_be<uint32_t>(~(1u << i)))); }
        v.push_back(IPv4Address("1.2.3.4")); v.push_back(IPv4Address("255.255.255.255")); return v; }
    static IPv4Address bit(int i) { return IPv4Address(Endian::host_to_be<uint32_t>(1u << i)); } static IPv4Address ones() { return IPv4Address("255.255.255.255"); }
    static std::vector<IPv4Address> all() { return probes(); } };
template <> struct Fam<IPv6Address, void> { static const bool scalar = true; static const int width = 128;
    static std::vector<IPv6Address> probes() { std::vector<IPv6Address> v; for (int i = 0; i < 128; ++i) { uint8_t b[16] = {0}; b[15 - i / 8] = uint8_t(1 << (i % 8)); v.push_back(IPv6Address(b)); }
        v.push_back(IPv6Address("2001:db8::1")); v.push_back(IPv6Address("ffff:ffff:ffff:ffff:ffff:ffff:ffff:ffff")); return v; }
    static IPv6Address bit(int i) { uint8_t b[16] = {0}; b[15 - i / 8] = uint8_t(1 << (i % 8)); return IPv6Address(b); } static IPv6Address ones() { return IPv6Address("ffff:ffff:ffff:ffff:ffff:ffff:ffff:ffff"); }
    static std::vector<IPv6Address> all() { return probes(); } };
template <size_t n> struct Fam<HWAddress<n>, void> { static const bool scalar = true; static const int width = (int)n * 8;
    static std::vector<HWAddress<n> > probes() { std::vector<HWAddress<n> > v; for (size_t i = 0; i < n * 8; ++i) { uint8_t b[n]; memset(b, 0, n); b[n - 1 - i / 8] = uint8_t(1 << (i % 8)); v.push_back(HWAddress<n>(b)); }
        uint8_t f[n]; memset(f, 0xff, n); v.push_back(HWAddress<n>(f)); return v; }
    static HWAddress<n> bit(int i) { uint8_t b[n]; memset(b, 0, n); b[n - 1 - i / 8] = uint8_t(1 << (i % 8)); return HWAddress<n>(b); }
    static HWAddress<n> ones() { uint8_t f[n]; memset(f, 0xff, n); return HWAddress<n>(f); }
    static std::vector<HWAddress<n> > all() { return probes(); } };

// ---------------------------------------------------------------- alias groups: getters that are documented views of the same wire bits
// (deprecated composite accessors and the type-dependent rest-of-header unions); pairs are symmetric
static bool aliased(const std::string& a, const std::string& b) {
    static const char* groups[][12] = {
        {"IP.frag_off", "IP.fragment_offset", "IP.flags", "IP.is_fragmented", 0},
        {"ICMP.id", "ICMP.sequence", "ICMP.gateway", "ICMP.mtu", "ICMP.pointer", "ICMP.length", 0},
        {"ICMPv6.identifier", "ICMPv6.sequence", "ICMPv6.hop_limit", "ICMPv6.router", "ICMPv6.solicited", "ICMPv6.override", "ICMPv6.maximum_response_code", "ICMPv6.length", "ICMPv6.router_lifetime", "ICMPv6.managed", "ICMPv6.other", 0},
        {"ICMPv6.home_agent", "ICMPv6.router_pref", "ICMPv6.managed", "ICMPv6.other", "ICMPv6.identifier", "ICMPv6.router_lifetime", "ICMPv6.sequence", 0},
        {"ICMPv6.reachable_time", "ICMPv6.qqic", "ICMPv6.qrv", "ICMPv6.supress", 0},
        {"TCP.flags", "TCP.has_flags", 0},
        {0}};
    for (int g = 0; groups[g][0]; ++g) {
        bool ha = false, hb = false;
        for (int i = 0; groups[g][i]; ++i) { if (a == groups[g][i]) ha = true; if (b == groups[g][i]) hb = true; }
        if (ha && hb) return true;
    }
    return false;
}
// bytes of the standalone serialization that are derived (checksums / lengths), per class
static bool derived_byte(const std::string& cls, size_t off) {
    if (cls == "IP") return off == 0 || (off >= 2 && off < 4) || (off >= 10 && off < 12) || off == 9;   // ihl, tot_len, checksum, protocol (0 without payload)
    if (cls == "ICMP") return off >= 2 && off < 4;
    if (cls == "ICMPv6") return off >= 2 && off < 4;
    if (cls == "TCP") return off == 12 || (off >= 16 && off < 18);
    if (cls == "UDP") return (off >= 4 && off < 8);
    if (cls == "IPv6") return (off >= 4 && off < 7);
    if (cls == "Dot3") return off >= 12 && off < 14;
    if (cls == "EthernetII") return off >= 12 && off < 14;
    if (cls == "Dot1Q") return off >= 2 && off < 4;
    if (cls == "RadioTap") return off >= 2 && off < 4;
    if (cls == "PPPoE") return off >= 4 && off < 6;
    if (cls == "IPSecAH") return off < 2;
    if (cls == "SNAP") return off >= 6 && off < 8;
    if (cls == "SLL") return off >= 14 && off < 16;
    if (cls.compare(0, 5, "EAPOL") == 0 || cls == "RSNEAPOL" || cls == "RC4EAPOL") return off >= 2 && off < 4;
    return false;
}
static bool little_endian_class(const std::string& cls) { return cls.compare(0, 5, "Dot11") == 0 || cls == "RadioTap" || cls == "PPI" || cls == "PKTAP" || cls == "Loopback"; }

static std::map<std::string, std::string> snapshot(const PDU& p) { std::map<std::string, std::string> m; View v; view_layer(p, v, 0); for (auto& e : v) m[e.key] = e.val; return m; }

static Bytes ser(PDU& p) {
    if (needs_environment(p)) return Bytes();
    return p.serialize();
}

struct FieldInfo { std::string cls, name; std::set<long> bits; };
static std::vector<FieldInfo> g_fields;   // per job: bit sets of the scalar fields of the classes it handled

template <class Q, class Arg> struct Runner {
    const char* T; const char* N;
    void (Q::*set)(Arg);
    std::string key() const { return std::string(T) + "." + N; }
    typedef typename std::decay<Arg>::type V;

    PDU* prior(int which) {
        PDU* o = make_default((Q*)0);
        if (!o) return 0;
        if (which == 0) return o;
        // 1: every settable field of the object at its maximum sample; 2: alternating bit pattern
        int k = which == 1 ? 2 : 5;
        // apply all generated setters that fit this dynamic type
#define API_PAIR(Q2, T2, N2, A2, R2) if (Q2* q2 = dynamic_cast<Q2*>(o)) { typedef decltype(setter_arg(&Q2::N2)) A_; if (nsamples<A_>() && Fam<A_>::scalar) { try { q2->N2(sample<A_>(k)); } catch (exception_base&) {} } }
#include "api.inc"
#undef API_PAIR
        return o;
    }

    void run(bool thorough, uint64_t& idx) {
        std::string k = key();
        std::vector<V> vals = Fam<V>::all();
        std::vector<V> probes = Fam<V>::probes();
        if (vals.empty()) { R.count("fields_without_domain"); R.info["nodomain:" + k] = "true"; return; }
        R.count("fields");
        R.dist("distinct_nontrivial", fnv(k));
        for (int pr = 0; pr < 3; ++pr) {
            std::unique_ptr<PDU> o(prior(pr));
            if (!o) { R.count("fields_uninstantiable"); return; }
            Q& q = static_cast<Q&>(*o);
            std::string ctx = "field=" + k + " prior=" + std::to_string(pr);
            // (a) exact inverse or clean rejection, for every value of the family
            auto base = snapshot(*o);
            size_t vi = 0;
            for (const V& v : vals) {
                uint64_t my = idx++;
                ++vi;
                if (skipped(my)) continue;
                if ((vi & 0x3ff) == 1) set_case(my, "C15", ctx + " value=" + show(v));
                Mon::reset();
                bool threw = false;
                try { (q.*set)(v); } catch (exception_base&) { threw = true; }
                R.count("evaluations");
                std::string got;
                try { got = getter_value(*o, k); } catch (exception_base& e) { got = std::string("!") + typeid(e).name(); }
                if (threw) {
                    if (snapshot(*o) != base) R.violation("field:rejected-but-changed:" + k, "setter threw but the object changed", ctx + " value=" + show(v));
                } else if (got != show(v)) {
                    R.violation("field:not-inverse:" + k, "set " + show(v) + " got " + got, ctx + " value=" + show(v));
                    break;
                }
                if (Mon::errors) R.violation(Mon::first, Mon::first_detail, ctx + " value=" + show(v));
                if (!threw) base[k] = got;
            }
            // (b) no other getter moves; (c) serialized bits: on the probe values, against the all-zero and the all-ones baseline
            if (!Fam<V>::scalar) continue;
            FieldInfo fi{T, N, {}};
            std::string cls = clsname(*o);
            bool fi_ok = true;
            const int w = Fam<V>::width;
            for (int bl = 0; bl < 2 && fi_ok; ++bl) {
                V basev = bl ? Fam<V>::ones() : V();
                std::vector<long> pos(w, -1);
                std::vector<V> pv = probes;
                for (int i = 0; i < w; ++i) pv.insert(pv.begin() + i, Fam<V>::bit(i));     // first w probes: single bits in order
                for (size_t pi = 0; pi < pv.size() && fi_ok; ++pi) {
                    const V& v = pv[pi];
                    std::unique_ptr<PDU> a(prior(pr)), b(prior(pr));
                    Q& qa = static_cast<Q&>(*a); Q& qb = static_cast<Q&>(*b);
                    try { (qa.*set)(basev); (qb.*set)(v); } catch (exception_base&) { continue; }
                    auto sa = snapshot(*a), sb = snapshot(*b);
                    for (auto& kv : sa) {
                        if (kv.first == k || aliased(kv.first, k) || always_derived_key(kv.first)) continue;
                        if (sb[kv.first] != kv.second) {
                            R.violation("field:disturbs-neighbour:" + k + "->" + kv.first, kv.first + " changed from " + kv.second + " to " + sb[kv.first] + " when " + k + " went from " + show(basev) + " to " + show(v), ctx + " value=" + show(v));
                            fi_ok = false;
                        }
                    }
                    if (!fi_ok) break;
                    Bytes ya, yb;
                    try { ya = ser(*a); yb = ser(*b); } catch (std::exception&) { continue; }
                    if (ya.empty() || ya.size() != yb.size()) continue;
                    R.count("serializations", 2);
                    std::vector<long> diff;
                    for (size_t i = 0; i < ya.size(); ++i) {
                        if (derived_byte(cls, i)) continue;
                        uint8_t x = ya[i] ^ yb[i];
                        for (int bit = 7; bit >= 0; --bit) if (x >> bit & 1) diff.push_back((long)(i * 8 + (7 - bit)));   // global MSB-first bit index
                    }
                    fi.bits.insert(diff.begin(), diff.end());
                    if (bl == 0 && (int)pi < w && !std::is_enum<V>::value) {
                        if (diff.size() != 1) {
                            if (!diff.empty() || !all_derived(cls, ya.size()))
                                R.violation("field:single-bit-not-single:" + k, "value bit " + std::to_string(pi) + " changes " + std::to_string(diff.size()) + " serialized bits", ctx + " value=" + show(v));
                            fi_ok = false;
                        } else pos[pi] = diff[0];
                    }
                }
                if (bl == 0 && fi_ok && w > 1 && pos[0] >= 0 && !std::is_enum<V>::value) {
                    bool be = true, le = true;
                    long b0 = pos[0] / 8;      // byte holding value bit 0
                    for (int i = 0; i < w; ++i) {
                        if (pos[i] != pos[0] - i) be = false;
                        long want_le = (b0 + i / 8) * 8 + 7 - (pos[0] % 8 == 7 ? i % 8 : -1000);
                        if (pos[0] % 8 != 7 || pos[i] != want_le) le = false;
                    }
                    if (!(be || (le && little_endian_class(cls))))
                        R.violation(std::string("field:bit-order:") + k, std::string("value bits are not laid out contiguously in ") + (little_endian_class(cls) ? "little- or big-endian" : "network (big-endian)") + " order; bit0 at " + std::to_string(pos[0]) + " bit" + std::to_string(w - 1) + " at " + std::to_string(pos[w - 1]), ctx);
                }
            }
            if (pr == 0 && fi_ok) {
                if (!fi.bits.empty() && (int)fi.bits.size() != w && !std::is_enum<V>::value)
                    R.violation("field:wire-width:" + k, "field of declared width " + std::to_string(w) + " occupies " + std::to_string(fi.bits.size()) + " wire bits", ctx);
                g_fields.push_back(fi);
            }
        }
    }
    static bool all_derived(const std::string& cls, size_t n) { for (size_t i = 0; i < n; ++i) if (!derived_byte(cls, i)) return false; return true; }

    static bool always_derived_key(const std::string& key) {
        size_t dot = key.find('.');
        std::string g = key.substr(dot + 1);
        return g == "header_size" || g == "trailer_size" || g == "size" || g == "advertised_size" || g == "pdu_type";
    }
    static std::string getter_value(const PDU& p, const std::string& key) {
        const auto& t = getter_table();
        for (int i : getters_of(p)) if (key == t[i].key) return t[i].call(p);
        return "<no getter>";
    }
};

template <class C, class A> A setter_param(void (C::*)(A));
template <class Q, class A> Runner<Q, A> make_runner(const char* T, const char* N, void (Q::*set)(A)) { return Runner<Q, A>{T, N, set}; }

struct Job { std::function<void(bool, uint64_t&)> fn; std::string key; };
static std::vector<Job> jobs() {
    std::vector<Job> v;
#define API_PAIR(Q, T, N, A, R) { typedef decltype(setter_param(&Q::N)) P_; typedef void (Q::*S_)(P_); \
    v.push_back(Job{[](bool th, uint64_t& idx) { auto r = make_runner<Q, P_>(#T, #N, static_cast<S_>(&Q::N)); r.run(th, idx); }, #T "." #N}); }
#include "api.inc"
#undef API_PAIR
    return v;
}

int main(int argc, char** argv) {
    const int NJ = 64;
    return run_main(argc, argv, NJ, NJ,
        [&](int job) {
            auto js = jobs();
            uint64_t idx = 0;
            if (job == 0) R.count("field_pairs_in_table", js.size());
            for (size_t i = job; i < js.size(); i += NJ) {
                js[i].fn(A.thorough(), idx);
                if (deadline_reached()) { R.flags["exhaustive"] = false; break; }
            }
            // (c) disjointness between the fields of one class handled by this job is checked in the driver-less way:
            // overlapping bit sets of two non-aliased fields of the same class
            for (size_t a = 0; a < g_fields.size(); ++a)
                for (size_t b = a + 1; b < g_fields.size(); ++b) {
                    if (g_fields[a].cls != g_fields[b].cls) continue;
                    std::string ka = g_fields[a].cls + "." + g_fields[a].name, kb = g_fields[b].cls + "." + g_fields[b].name;
                    if (aliased(ka, kb)) continue;
                    for (long bit : g_fields[a].bits) if (g_fields[b].bits.count(bit)) { R.violation("field:wire-bits-overlap:" + ka + "&" + kb, "both fields write serialized bit " + std::to_string(bit), "field=" + ka); break; }
                }
            if (job == 0) R.sample(jstr("field=IP.ttl prior=0 value=0..255 ; field=IPv6.flow_label prior=1 probes=single bits"));
        },
        [&](const std::string& kase) -> int {
            auto kv = parse_kv(kase);
            uint64_t idx = 0;
            for (auto& j : jobs()) if (j.key == kv["field"]) j.fn(true, idx);
            for (auto& v : R.violations) { printf("violation reproduced: %s | %s | %s\n", v.first.c_str(), v.second.detail.c_str(), v.second.kase.c_str()); return 1; }
            printf("no violation for field %s\n", kv["field"].c_str());
            return 0;
        });
}
