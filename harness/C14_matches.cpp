// C14 — response matching accepts mirrored replies, rejects strangers, is memory-safe.
// Shape B (exhaustive enumeration of a finite input family, no state):
//   part "func": requests over {EthernetII, EthernetII/Dot1Q, bare IP, bare IPv6} x {IP, IPv6} x {TCP, UDP+payload,
//                ICMP echo/timestamp/address-mask, ICMPv6 echo, DNS over UDP}, field values from boundary sets, all
//                requests that deviate from the base request in <= k field groups.  mirror(r) is built independently,
//                from the request DESCRIPTOR (never from the request object), field by field, then serialized.
//                positive: r.matches_response(mirror) ; negative: every byte of every matched field x 255 other values.
//                plus, for IPv4 requests, ICMP errors from strangers quoting a different packet.
//                Network header variants: IPv4 without options / with stream-id (24-byte header) / NOOP + record-route (32),
//                IPv6 without / with one (8 bytes) / with two (8 + 16 bytes) extension headers; the mirror carries the same.
//   part "min":  minimal-size mirrors: every stack (and every prefix of it, and every matcher class called directly) with each
//                layer in its minimal form (no payload, no options, no question), reply buffer = exactly the sum of the header
//                sizes (exact-size malloc block), the same + 1 trailing byte, and as serialized under padding link layers; all
//                must be accepted.  Every concrete class of the GENERATED class table whose matches_response is an override must
//                be the last reply layer of at least one such case with 0 and with 1 byte behind it.  Every proper prefix
//                of every minimal reply is matched under the safety oracle only.
//   part "hist": run first in every process: the base request of every (stack, header variant) is judged in ascending
//                header-size order, in descending order, then the very first one again; every verdict must be what the
//                oracle says and identical in all passes (matchers must not depend on the history of earlier calls).
//   part "safe": every concrete PDU class (default, and with an inner layer) and every functional stack x every buffer
//                length 0..128 x {zeros, ones, truncated/padded seed, single-byte substitutions near every layer start},
//                each in an exact-size malloc block, under ASan+UBSan.
#include "common.hpp"
#include <memory>
#include <csetjmp>
#include <csignal>
#include <tins/tins.h>
#include <tins/pdu_cacher.h>
#include <tins/pktap.h>
#include <tins/loopback.h>
#include <type_traits>
#include "tins_all_headers.inc"   // generated (lib/gen.py): every header below include/tins, so that every class of classes.inc is complete

using namespace Tins;
using namespace mc;

// ------------------------------------------------------------------ small helpers
static std::map<std::string, std::string> kvparse(const std::string& s) {
    std::map<std::string, std::string> m;
    std::istringstream in(s);
    std::string t;
    while (in >> t) {
        size_t e = t.find('=');
        if (e != std::string::npos) m[t.substr(0, e)] = t.substr(e + 1);
    }
    return m;
}
static long num(const std::string& s) { return strtol(s.c_str(), 0, 0); }

typedef HWAddress<6> Mac;

// ------------------------------------------------------------------ request descriptor
enum { LINK_ETH = 0, LINK_DOT1Q = 1, LINK_NONE = 2 };
enum { L4_TCP = 0, L4_UDP, L4_ICMP_ECHO, L4_ICMP_TS, L4_ICMP_MASK, L4_ICMP6_ECHO, L4_DNS, L4_COUNT };
static const char* link_name[] = {"eth", "eth-dot1q", "bare"};
static const char* l4_name[] = {"tcp", "udp", "icmp-echo", "icmp-timestamp", "icmp-addrmask", "icmp6-echo", "dns"};

struct Req {
    int link, net, l4;
    Mac smac, dmac;
    uint16_t vid; uint8_t pcp, cfi;
    IPv4Address sip4, dip4;
    IPv6Address sip6, dip6;
    uint16_t sport, dport, id, seq, dnsid;
    int plen;
    int nopt;      // network header variant: 0 plain; IPv4: 1 stream-id, 2 NOOP + record-route; IPv6: 1 dest-opts, 2 hop-by-hop + dest-opts
};

static std::string stack_name(const Req& r) {
    return std::string(link_name[r.link]) + "/ip" + (r.net == 4 ? "4" : "6") + "/" + l4_name[r.l4];
}
// size of the network header of request and mirror (both carry the same options / extension headers)
static int net_hdr(const Req& r) {
    static const int v4[] = {20, 24, 32}, v6[] = {40, 48, 64};
    return r.net == 4 ? v4[r.nopt] : v6[r.nopt];
}
// options are set through the documented setters; the route / padding contents differ between request and mirror
static void add_net_options(IP& ip, int nopt, bool mirror) {
    if (nopt == 1) ip.stream_identifier(mirror ? 0x0708 : 0x0102);
    if (nopt == 2) {
        ip.add_option(IP::option(IP::option_identifier(IP::NOOP, IP::CONTROL, 0)));
        IP::record_route_type rr(mirror ? 12 : 4);
        rr.routes.push_back(mirror ? "192.0.2.1" : "0.0.0.0"); rr.routes.push_back(mirror ? "192.0.2.2" : "0.0.0.0");
        ip.record_route(rr);
    }
}
static void add_net_options(IPv6& ip, int nopt, bool mirror) {
    uint8_t padn[14] = {1, 4, 0, 0, 0, 0, 1, 6, 0, 0, 0, 0, 0, 0};   // PadN options: 6 bytes -> 8-byte header, 14 -> 16-byte header
    if (mirror) padn[2] = 0;
    if (nopt == 1) ip.add_header(IPv6::ext_header(IPv6::DESTINATION_OPTIONS, 6, padn));
    if (nopt == 2) { ip.add_header(IPv6::ext_header(IPv6::HOP_BY_HOP, 6, padn)); ip.add_header(IPv6::ext_header(IPv6::DESTINATION_OPTIONS, 14, padn)); }
}
static std::string req_str(const Req& r) {
    std::string s = "link=" + str(r.link) + " net=" + str(r.net) + " l4=" + str(r.l4);
    if (r.link != LINK_NONE) s += " smac=" + r.smac.to_string() + " dmac=" + r.dmac.to_string();
    if (r.link == LINK_DOT1Q) s += " vid=" + str(r.vid) + " pcp=" + str((int)r.pcp) + " cfi=" + str((int)r.cfi);
    if (r.net == 4) s += " sip=" + r.sip4.to_string() + " dip=" + r.dip4.to_string();
    else s += " sip=" + r.sip6.to_string() + " dip=" + r.dip6.to_string();
    if (r.l4 == L4_TCP || r.l4 == L4_UDP || r.l4 == L4_DNS) s += " sport=" + str(r.sport) + " dport=" + str(r.dport);
    if (r.l4 >= L4_ICMP_ECHO && r.l4 <= L4_ICMP6_ECHO) s += " id=" + str(r.id) + " seq=" + str(r.seq);
    if (r.l4 == L4_DNS) s += " dnsid=" + str(r.dnsid);
    s += " plen=" + str(r.plen);
    if (r.nopt) s += " nopt=" + str(r.nopt);
    return s;
}
static Req req_parse(std::map<std::string, std::string>& kv) {
    Req r = Req();
    r.link = num(kv["link"]); r.net = num(kv["net"]); r.l4 = num(kv["l4"]);
    if (kv.count("smac")) r.smac = Mac(kv["smac"]);
    if (kv.count("dmac")) r.dmac = Mac(kv["dmac"]);
    r.vid = num(kv["vid"]); r.pcp = num(kv["pcp"]); r.cfi = num(kv["cfi"]);
    if (r.net == 4) { r.sip4 = IPv4Address(kv["sip"]); r.dip4 = IPv4Address(kv["dip"]); }
    else { r.sip6 = IPv6Address(kv["sip"]); r.dip6 = IPv6Address(kv["dip"]); }
    r.sport = num(kv["sport"]); r.dport = num(kv["dport"]); r.id = num(kv["id"]); r.seq = num(kv["seq"]);
    r.dnsid = num(kv["dnsid"]); r.plen = num(kv["plen"]); r.nopt = kv.count("nopt") ? num(kv["nopt"]) : 0;
    return r;
}

static Bytes pattern(int n, uint8_t seed) { Bytes b; for (int i = 0; i < n; ++i) b.push_back(uint8_t(seed + 13 * i)); return b; }

static void push(std::unique_ptr<PDU>& top, const PDU& p) {
    if (!top) { top.reset(p.clone()); return; }
    PDU* last = top.get();
    while (last->inner_pdu()) last = last->inner_pdu();
    last->inner_pdu(p.clone());
}

// The request, built with libtins the way a user of send_recv() would.
static std::unique_ptr<PDU> build_request(const Req& r) {
    std::unique_ptr<PDU> top;
    if (r.link != LINK_NONE) push(top, EthernetII(r.dmac, r.smac));
    if (r.link == LINK_DOT1Q) { Dot1Q q(r.vid); q.priority(r.pcp); q.cfi(r.cfi); push(top, q); }
    if (r.net == 4) { IP ip(r.dip4, r.sip4); ip.ttl(64); ip.id(0x1234); add_net_options(ip, r.nopt, false); push(top, ip); }
    else { IPv6 ip(r.dip6, r.sip6); ip.hop_limit(64); add_net_options(ip, r.nopt, false); push(top, ip); }
    switch (r.l4) {
        case L4_TCP: { TCP t(r.dport, r.sport); t.flags(TCP::SYN); t.seq(0x01020304); t.window(1000); push(top, t);
                       if (r.plen) push(top, RawPDU(pattern(r.plen, 1))); break; }
        case L4_UDP: { push(top, UDP(r.dport, r.sport)); push(top, RawPDU(pattern(r.plen, 2))); break; }
        case L4_ICMP_ECHO: { ICMP c(ICMP::ECHO_REQUEST); c.id(r.id); c.sequence(r.seq); push(top, c);
                             if (r.plen) push(top, RawPDU(pattern(r.plen, 3))); break; }
        case L4_ICMP_TS: { ICMP c(ICMP::TIMESTAMP_REQUEST); c.id(r.id); c.sequence(r.seq); c.original_timestamp(0x11223344); push(top, c);
                           if (r.plen) push(top, RawPDU(pattern(r.plen, 4))); break; }
        case L4_ICMP_MASK: { ICMP c(ICMP::ADDRESS_MASK_REQUEST); c.id(r.id); c.sequence(r.seq); push(top, c);
                             if (r.plen) push(top, RawPDU(pattern(r.plen, 5))); break; }
        case L4_ICMP6_ECHO: { ICMPv6 c(ICMPv6::ECHO_REQUEST); c.identifier(r.id); c.sequence(r.seq); push(top, c);
                              if (r.plen) push(top, RawPDU(pattern(r.plen, 6))); break; }
        case L4_DNS: { push(top, UDP(r.dport, r.sport)); DNS d; d.id(r.dnsid); d.type(DNS::QUERY); d.recursion_desired(1);
                       d.add_query(DNS::query("www.example.com", DNS::A, DNS::IN)); push(top, d); break; }
    }
    return top;
}

// mirror(r): built from the descriptor only.  Addresses and ports swapped, reply type with the same identifier and
// sequence, same DNS id with QR set, same VLAN id.  Everything the statement leaves open (TTL, IP id, TCP numbers,
// payload of UDP replies, DNS answers) deliberately differs from the request.
static std::unique_ptr<PDU> build_mirror_pdu(const Req& r) {
    std::unique_ptr<PDU> top;
    if (r.link != LINK_NONE) {
        EthernetII e;
        e.dst_addr(r.smac);
        e.src_addr(r.dmac);
        push(top, e);
    }
    if (r.link == LINK_DOT1Q) { Dot1Q q; q.id(r.vid); q.priority(r.pcp); q.cfi(r.cfi); push(top, q); }
    if (r.net == 4) { IP ip; ip.dst_addr(r.sip4); ip.src_addr(r.dip4); ip.ttl(57); ip.id(0x4321); ip.tos(0x10); add_net_options(ip, r.nopt, true); push(top, ip); }
    else { IPv6 ip; ip.dst_addr(r.sip6); ip.src_addr(r.dip6); ip.hop_limit(57); ip.flow_label(0x12345); add_net_options(ip, r.nopt, true); push(top, ip); }
    switch (r.l4) {
        case L4_TCP: { TCP t; t.dport(r.sport); t.sport(r.dport); t.flags(TCP::SYN | TCP::ACK); t.seq(0x0a0b0c0d); t.ack_seq(0x01020305);
                       t.window(4242); push(top, t); break; }
        case L4_UDP: { UDP u; u.dport(r.sport); u.sport(r.dport); push(top, u); push(top, RawPDU(pattern(r.plen + 3, 0x80))); break; }
        case L4_ICMP_ECHO: { ICMP c; c.type(ICMP::ECHO_REPLY); c.id(r.id); c.sequence(r.seq); push(top, c);
                             if (r.plen) push(top, RawPDU(pattern(r.plen, 3))); break; }
        case L4_ICMP_TS: { ICMP c; c.type(ICMP::TIMESTAMP_REPLY); c.id(r.id); c.sequence(r.seq); c.original_timestamp(0x11223344);
                           c.receive_timestamp(0x11223355); c.transmit_timestamp(0x11223366); push(top, c);
                           if (r.plen) push(top, RawPDU(pattern(r.plen, 4))); break; }
        case L4_ICMP_MASK: { ICMP c; c.type(ICMP::ADDRESS_MASK_REPLY); c.id(r.id); c.sequence(r.seq); c.address_mask("255.255.255.0"); push(top, c);
                             if (r.plen) push(top, RawPDU(pattern(r.plen, 5))); break; }
        case L4_ICMP6_ECHO: { ICMPv6 c; c.type(ICMPv6::ECHO_REPLY); c.identifier(r.id); c.sequence(r.seq); push(top, c);
                              if (r.plen) push(top, RawPDU(pattern(r.plen, 6))); break; }
        case L4_DNS: { UDP u; u.dport(r.sport); u.sport(r.dport); push(top, u);
                       DNS d; d.id(r.dnsid); d.type(DNS::RESPONSE); d.recursion_desired(1); d.recursion_available(1);
                       d.add_query(DNS::query("www.example.com", DNS::A, DNS::IN));
                       d.add_answer(DNS::resource("www.example.com", "93.184.216.34", DNS::A, DNS::IN, 300)); push(top, d); break; }
    }
    return top;
}

// ------------------------------------------------------------------ matched fields (by protocol layout, not by libtins)
struct Field { std::string name; int off, len; bool exempt; uint8_t mask; std::string cls; };
// mask: bits of the byte that belong to the field (first byte only); exempt: the reference table below says replies may carry ANY
// value in this field for this class of request address (then every perturbation must be ACCEPTED); cls: that class

struct Layout { int link_off, vlan_off, net_off, l4_off; };
static Layout layout(const Req& r) {
    Layout l; l.link_off = r.link == LINK_NONE ? -1 : 0; l.vlan_off = r.link == LINK_DOT1Q ? 14 : -1;
    l.net_off = r.link == LINK_NONE ? 0 : r.link == LINK_ETH ? 14 : 18;
    l.l4_off = l.net_off + net_hdr(r);
    return l;
}
// ---- address classes and the REFERENCE TABLE of exemptions --------------------------------------------------------------------
// A request to a group address is answered by hosts the sender cannot name, so a matcher may have to accept any reply source for
// such a destination.  Which classes are exempt is part of the documented behaviour of libtins (comments in the matchers + the RFC
// semantics they cite); it is written down here independently, and every class is judged in BOTH directions: a non-exempt class
// must reject every foreign reply source, an exempt class must accept every one.  A class that silently joins or leaves the
// exempt set is reported either way.
static std::string mac_class(const Mac& m) {
    if (m == Mac("ff:ff:ff:ff:ff:ff")) return "broadcast";
    return (m[0] & 1) ? "multicast" : "unicast";                       // IEEE 802 I/G bit
}
static std::string ip4_class(const IPv4Address& a) {
    uint32_t h = Endian::be_to_host((uint32_t)a);
    if (h == 0xffffffffu) return "limited-broadcast";                 // RFC 919
    if (h == 0) return "zero";                                         // RFC 1122 3.2.1.3 "this host"
    if ((h >> 28) == 0xe) return "multicast";                          // RFC 5771 224.0.0.0/4
    if ((h >> 28) == 0xf) return "reserved-240";                       // RFC 1112 section 4, 240.0.0.0/4
    if ((h >> 24) == 127) return "loopback";
    return "unicast";                                                  // incl. x.y.z.255: a directed broadcast is not recognisable without a netmask
}
static std::string ip6_class(const IPv6Address& a) {
    const uint8_t* b = a.begin();
    if (b[0] == 0xff) return b[1] == 0x02 ? "mcast-ff02" : "mcast-other";   // RFC 4291 2.7: flags 0, scope 2 (link-local, well-known) vs. the rest of ff00::/8
    bool zero = true; for (int i = 0; i < 15; ++i) if (b[i]) zero = false;
    if (zero && b[15] == 0) return "unspecified";
    if (zero && b[15] == 1) return "loopback";
    if (b[0] == 0xfe && (b[1] & 0xc0) == 0x80) return "link-local";
    return "unicast";
}
struct ExemptRow { const char* layer; const char* dst_class; bool reply_src_any; const char* why; };
static const ExemptRow EXEMPT_TABLE[] = {
    // EthernetII::matches_response: "|| !dst_addr().is_unicast()" -- a frame sent to a group address is answered from the
    // responder's own station address
    {"link", "unicast", false, "the reply comes from the station the request was sent to"},
    {"link", "broadcast", true, "IEEE 802 group address: any station may answer"},
    {"link", "multicast", true, "IEEE 802 group address (I/G bit set, incl. 01:00:5e.., 33:33.., 01:80:c2..): any station may answer"},
    // IP::matches_response: "checks for broadcast addr": header_.daddr == reply source || dst_addr().is_broadcast()
    {"ip", "unicast", false, "the reply comes from the address the request was sent to (x.y.z.255 included: no netmask is known)"},
    {"ip", "limited-broadcast", true, "RFC 919 255.255.255.255: every host on the link answers from its own address"},
    {"ip", "multicast", false, "libtins exempts only is_broadcast(); 224.0.0.0/4 is compared like unicast"},
    {"ip", "reserved-240", false, "240.0.0.0/4 below 255.255.255.255 is not broadcast"},
    {"ip", "zero", false, "0.0.0.0 as destination is compared literally"},
    {"ip", "loopback", false, "127.0.0.0/8 is compared literally"},
    // IPv6::matches_response: "checks for ff02 multicast": dst_addr() == reply source || dst starts with ff 02
    {"ip6", "unicast", false, "the reply comes from the address the request was sent to"},
    {"ip6", "link-local", false, "fe80::/10 is unicast"},
    {"ip6", "loopback", false, "::1 is unicast"},
    {"ip6", "unspecified", false, ":: is compared literally"},
    {"ip6", "mcast-ff02", true, "ff02::/16 (all-nodes, all-routers, solicited-node ff02::1:ffxx:xxxx): neighbours answer from their own address"},
    {"ip6", "mcast-other", false, "only ff02::/16 is exempt: ff01::, ff05::, ff0e::, ff12::, ff00:: are compared like unicast"},
};
static bool ref_reply_src_any(const std::string& layer, const std::string& cls) {
    for (auto& r : EXEMPT_TABLE) if (layer == r.layer && cls == r.dst_class) return r.reply_src_any;
    return false;
}
// IP::matches_response second clause, "(dst_addr().is_broadcast() && header_.saddr == 0)": a host without an address (BOOTP/DHCP,
// RFC 951 / RFC 2131 4.1) broadcasts from 0.0.0.0; the answer is addressed to the offered address or to broadcast, so for exactly
// that combination the reply DESTINATION is not determined either.
static bool ref_ip4_reply_dst_any(const IPv4Address& src, const IPv4Address& dst) {
    return ip4_class(src) == "zero" && ip4_class(dst) == "limited-broadcast";
}

static std::vector<Field> matched_fields(const Req& r) {
    std::vector<Field> f;
    Layout l = layout(r);
    if (r.link != LINK_NONE) {
        f.push_back(Field{"link.reply-dst", 0, 6, false, 0xff, "unicast"});
        f.push_back(Field{"link.reply-src", 6, 6, ref_reply_src_any("link", mac_class(r.dmac)), 0xff, mac_class(r.dmac)});
    }
    if (r.link == LINK_DOT1Q) f.push_back(Field{"vlan.id", 14, 2, false, 0x0f, "unicast"});
    if (r.net == 4) {
        f.push_back(Field{"ip.reply-src", l.net_off + 12, 4, ref_reply_src_any("ip", ip4_class(r.dip4)), 0xff, ip4_class(r.dip4)});
        bool dst_any = ref_ip4_reply_dst_any(r.sip4, r.dip4);
        f.push_back(Field{"ip.reply-dst", l.net_off + 16, 4, dst_any, 0xff, dst_any ? "zero-source-to-limited-broadcast" : "unicast"});
    } else {
        f.push_back(Field{"ip6.reply-src", l.net_off + 8, 16, ref_reply_src_any("ip6", ip6_class(r.dip6)), 0xff, ip6_class(r.dip6)});
        f.push_back(Field{"ip6.reply-dst", l.net_off + 24, 16, false, 0xff, "unicast"});
    }
    std::string p = r.l4 == L4_TCP ? "tcp" : "udp";
    switch (r.l4) {
        case L4_TCP: case L4_UDP: case L4_DNS:
            f.push_back(Field{p + ".reply-sport", l.l4_off, 2, false, 0xff, "unicast"});
            f.push_back(Field{p + ".reply-dport", l.l4_off + 2, 2, false, 0xff, "unicast"});
            if (r.l4 == L4_DNS) f.push_back(Field{"dns.id", l.l4_off + 8, 2, false, 0xff, "unicast"});
            break;
        default: {
            std::string q = r.l4 == L4_ICMP6_ECHO ? "icmp6" : "icmp";
            f.push_back(Field{q + ".reply-type", l.l4_off, 1, false, 0xff, "unicast"});
            f.push_back(Field{q + ".id", l.l4_off + 4, 2, false, 0xff, "unicast"});
            f.push_back(Field{q + ".sequence", l.l4_off + 6, 2, false, 0xff, "unicast"});
        }
    }
    return f;
}

// harness self-check: the mirror's wire image carries the mirrored values at the offsets the protocol RFCs give
static std::string check_mirror_layout(const Req& r, const Bytes& m) {
    Layout l = layout(r);
    auto be16 = [&](int o) { return (uint16_t)((m[o] << 8) | m[o + 1]); };
    if ((int)m.size() < l.l4_off + 8) return "short";
    if (r.link != LINK_NONE) {
        if (memcmp(&m[0], r.smac.begin(), 6) || memcmp(&m[6], r.dmac.begin(), 6)) return "mac";
        if (be16(12) != (r.link == LINK_DOT1Q ? 0x8100 : r.net == 4 ? 0x0800 : 0x86dd)) return "ethertype";
    }
    if (r.link == LINK_DOT1Q) {
        if ((be16(14) & 0xfff) != r.vid) return "vid";
        if (be16(16) != (r.net == 4 ? 0x0800 : 0x86dd)) return "vlan-ethertype";
    }
    if (r.net == 4) {
        uint32_t s = r.dip4, d = r.sip4;
        if (m[l.net_off] != (0x40 | net_hdr(r) / 4) || memcmp(&m[l.net_off + 12], &s, 4) || memcmp(&m[l.net_off + 16], &d, 4)) return "ip";
    } else {
        if ((m[l.net_off] >> 4) != 6 || memcmp(&m[l.net_off + 8], r.dip6.begin(), 16) || memcmp(&m[l.net_off + 24], r.sip6.begin(), 16)) return "ip6";
        // RFC 8200 chain: next-header octets lead to the transport at l4_off
        uint8_t proto = r.l4 == L4_TCP ? 6 : r.l4 == L4_ICMP6_ECHO ? 58 : 17;
        int o6 = l.net_off + 40; uint8_t nh = m[l.net_off + 6];
        while (o6 < l.l4_off) { if (nh != 0 && nh != 60) return "ip6-chain"; nh = m[o6]; o6 += (m[o6 + 1] + 1) * 8; }
        if (o6 != l.l4_off || nh != proto) return "ip6-chain";
    }
    int o = l.l4_off;
    switch (r.l4) {
        case L4_TCP: case L4_UDP: case L4_DNS:
            if (be16(o) != r.dport || be16(o + 2) != r.sport) return "ports";
            if (r.l4 == L4_DNS && ((int)m.size() < o + 12 || be16(o + 8) != r.dnsid || !(m[o + 10] & 0x80))) return "dns";
            break;
        case L4_ICMP_ECHO: if (m[o] != 0) return "type"; break;
        case L4_ICMP_TS: if (m[o] != 14) return "type"; break;
        case L4_ICMP_MASK: if (m[o] != 18) return "type"; break;
        case L4_ICMP6_ECHO: if (m[o] != 129) return "type"; break;
    }
    if (r.l4 >= L4_ICMP_ECHO && r.l4 <= L4_ICMP6_ECHO && (be16(o + 4) != r.id || be16(o + 6) != r.seq)) return "id-seq";
    return "";
}

// ------------------------------------------------------------------ one guarded matcher call
struct Block {      // exact-size malloc block: the byte after the end is an ASan redzone; size 0 = zero-size block
    uint8_t* p; size_t n;
    Block(const uint8_t* src, size_t n_) : p((uint8_t*)malloc(n_)), n(n_) { if (n) memcpy(p, src, n); }
    ~Block() { free(p); }
};

enum Outcome { O_FALSE = 0, O_TRUE = 1, O_TINS_EXC = 2, O_BAD = 3 };
static std::string g_bad;   // signature of a safety violation of the last call

// A read far outside the buffer (pointer advanced by a length taken from the packet) lands in unmapped memory: SIGSEGV instead
// of an ASan report.  Matchers are read-only, so the call is abandoned with siglongjmp, judged a violation, and the
// enumeration continues (otherwise every such case would cost a restart of the whole job).
static sigjmp_buf g_jmp;
static volatile sig_atomic_t g_armed = 0;
static char g_segv_frame[256];
static struct sigaction g_old_segv, g_old_bus;
static void on_segv(int sig, siginfo_t* si, void* uc) {
    if (g_armed) {
        g_armed = 0;
        std::string f = tins_frame();
        snprintf(g_segv_frame, sizeof g_segv_frame, "%s", f.c_str());
        siglongjmp(g_jmp, 1);
    }
    struct sigaction* old = sig == SIGSEGV ? &g_old_segv : &g_old_bus;   // not ours: let ASan report it
    if (old->sa_flags & SA_SIGINFO) { if (old->sa_sigaction) { old->sa_sigaction(sig, si, uc); return; } }
    else if (old->sa_handler != SIG_DFL && old->sa_handler != SIG_IGN) { old->sa_handler(sig); return; }
    signal(sig, SIG_DFL); raise(sig);
}
static void install_segv_guard() {
    struct sigaction sa;
    memset(&sa, 0, sizeof sa);
    sa.sa_sigaction = on_segv;
    sa.sa_flags = SA_SIGINFO | SA_NODEFER;
    sigemptyset(&sa.sa_mask);
    sigaction(SIGSEGV, &sa, &g_old_segv);
    sigaction(SIGBUS, &sa, &g_old_bus);
}

static Outcome call_match(const PDU& req, const uint8_t* p, uint32_t n, const std::string& site) {
    Mon::reset();
    long live0 = live_allocs();
    int o = -1;            // -1: a foreign exception escaped
    const char* exc = 0;
    g_bad.clear();
    if (sigsetjmp(g_jmp, 0)) {   // reached again only from on_segv (no objects with destructors live across the call)
        g_bad = std::string("segv:R:") + (g_segv_frame[0] ? g_segv_frame : site.c_str());
        return O_BAD;
    }
    g_armed = 1;
    try {
        o = req.matches_response(p, n) ? O_TRUE : O_FALSE;
    } catch (const exception_base&) {
        o = O_TINS_EXC;
    } catch (const std::exception& e) {
        exc = typeid(e).name();
    } catch (...) {
        exc = "unknown";
    }
    g_armed = 0;
    if (o < 0) { g_bad = std::string("exc:") + exc + ":" + site; return O_BAD; }
    if (Mon::errors) { g_bad = Mon::first; return O_BAD; }
    if (live_allocs() != live0) { g_bad = "leak:matches_response:" + site; return O_BAD; }
    return (Outcome)o;
}

// ------------------------------------------------------------------ functional part
static Bytes icmp_error_packet(const Req& r, const Bytes& req_wire, int type, int code, int xvar, int yvar, int qvar) {
    // link layer mirrored correctly; network addresses both differ from the mirror; the quoted header differs from the
    // request's header in an address (qvar 0: source byte, 1: destination byte) or is a different packet altogether (2)
    Layout l = layout(r);
    Bytes quote(req_wire.begin() + l.net_off, req_wire.begin() + std::min<size_t>(req_wire.size(), l.net_off + 28));
    while (quote.size() < 28) quote.push_back(0);
    if (qvar == 0) quote[15] ^= 0x01;
    else if (qvar == 1) quote[19] ^= 0x40;
    else { for (size_t i = 0; i < quote.size(); ++i) quote[i] = uint8_t(0x45 + 7 * i); quote[0] = 0x45; }
    uint32_t x = Endian::be_to_host((uint32_t)r.dip4), y = Endian::be_to_host((uint32_t)r.sip4);
    x = xvar == 0 ? (x ^ 0x00000100u) : 0xc6336407u;   // one byte away from the request destination / 198.51.100.7
    y = yvar == 0 ? (y ^ 0x00010000u) : 0xcb007109u;   // one byte away from the request source / 203.0.113.9
    if (x == 0) x = 0xc6336407u;
    if (y == 0) y = 0xcb007109u;
    std::unique_ptr<PDU> top;
    if (r.link != LINK_NONE) { EthernetII e; e.dst_addr(r.smac); e.src_addr(r.dmac); push(top, e); }
    if (r.link == LINK_DOT1Q) { Dot1Q q; q.id(r.vid); q.priority(r.pcp); q.cfi(r.cfi); push(top, q); }
    IP ip; ip.src_addr(IPv4Address(Endian::host_to_be(x))); ip.dst_addr(IPv4Address(Endian::host_to_be(y))); ip.ttl(61); push(top, ip);
    ICMP c; c.type((ICMP::Flags)type); c.code(code); push(top, c);
    push(top, RawPDU(quote));
    return top->serialize();
}

struct FuncCtx { uint64_t evals; };

// runs all evaluations of one request; `only` (replay) restricts to one test
static int run_request(const Req& r, const std::map<std::string, std::string>* only, bool verbose) {
    int bad = 0;
    std::string rs = req_str(r), st = stack_name(r);
    std::unique_ptr<PDU> req = build_request(r);
    Bytes req_wire = req->serialize();        // send_recv() serializes (sends) the request before it matches anything
    std::unique_ptr<PDU> mp = build_mirror_pdu(r);
    Bytes m = mp->serialize();
    std::string lay = check_mirror_layout(r, m);
    if (!lay.empty()) { R.violation("harness:mirror-layout:" + lay, "mirror wire image does not carry the mirrored values: " + hex(m), "part=func " + rs + " test=pos"); return 1; }
    if (verbose) printf("request : %s\nmirror  : %s\n", hex(req_wire).c_str(), hex(m).c_str());
    std::string want = only ? only->at("test") : "";
    auto report = [&](const std::string& sig, const std::string& detail, const std::string& kase) {
        R.violation(sig, detail, kase); bad++;
        if (verbose) printf("violation reproduced: %s\n  %s\n", sig.c_str(), detail.c_str());
    };
    // ---- positive
    int first_pos = -1;
    if (!only || want == "pos") {
        Block b(m.data(), m.size());
        Outcome o = call_match(*req, b.p, (uint32_t)b.n, st);
        first_pos = o;
        R.count("evaluations"); R.count("positive_evaluations");
        R.dist("distinct_outcomes", fnv("pos" + str((int)o)));
        std::string kase = "part=func " + rs + " test=pos";
        if (o == O_BAD) report(g_bad, "during matches_response(mirror) request=" + hex(req_wire) + " reply=" + hex(m), kase);
        else if (o != O_TRUE)
            report("match:mirror-rejected:" + st, std::string(o == O_FALSE ? "matches_response returned false" : "libtins exception") +
                   " for the mirrored reply; request=" + hex(req_wire) + " reply=" + hex(m), kase);
        else R.count("mirrors_accepted");
    }
    // ---- negative: every byte of every matched field x 255 other values
    if (!only || want == "neg") {
        Block b(m.data(), m.size());
        std::vector<Field> fields = matched_fields(r);
        for (size_t fi = 0; fi < fields.size(); ++fi) {
            const Field& f = fields[fi];
            if (only && f.name != only->at("field")) continue;
            if (f.exempt) R.count("exempt_fields_judged");
            if (f.name.find("reply-src") != std::string::npos || f.cls != "unicast") R.dist("distinct_address_class_cases", fnv(st + "|" + f.name + "|" + f.cls));
            if (f.name.find("reply-src") != std::string::npos) R.dist("distinct_request_destination_classes", fnv(f.name + "|" + f.cls));
            const Outcome expected = f.exempt ? O_TRUE : O_FALSE;
            const std::string clsfx = f.cls == "unicast" ? "" : ":to-" + f.cls;
            R.dist("distinct_nontrivial", fnv(st + "+" + str(net_hdr(r)) + "|" + f.name + "|" + hex(&m[f.off], f.len)));
            R.dist("distinct_perturbed_fields", fnv(st + "+" + str(net_hdr(r)) + "|" + f.name));
            for (int k = 0; k < f.len; ++k) {
                int off = f.off + k;
                if (only && only->count("off") && num(only->at("off")) != off) continue;
                uint8_t orig = b.p[off];
                uint8_t mask = k == 0 ? f.mask : 0xff;
                for (int v = 0; v < 256; ++v) {
                    if (((v ^ orig) & mask) == 0) continue;   // same field value (also covers v == orig)
                    if (only && only->count("val") && num(only->at("val")) != v) continue;
                    b.p[off] = (uint8_t)v;
                    Outcome o = call_match(*req, b.p, (uint32_t)b.n, st);
                    R.count("evaluations"); R.count("negative_evaluations");
                    if (f.exempt) R.count("exempt_evaluations");
                    if (o == expected) continue;
                    if (o == O_TRUE || o == O_FALSE) {
                        // a defect is hit millions of times: once its signature is recorded with a case string that this one
                        // cannot beat in length, only count it (building the strings costs more than the matcher call)
                        std::string sig = (o == O_TRUE ? "match:stranger-accepted:" : "match:exempt-class-reply-rejected:") + f.name + clsfx;
                        if (f.name == "icmp.reply-type" && (v == 3 || v == 11 || v == 12)) sig += ":icmp-error-type";
                        std::map<std::string, Violation>::iterator it = R.violations.find(sig);
                        if (!verbose && it != R.violations.end() && it->second.kase.size() <= rs.size() + f.name.size() + 38) {
                            it->second.count++; bad++;
                            continue;
                        }
                    }
                    R.dist("distinct_outcomes", fnv("neg" + str((int)o)));
                    std::string kase = "part=func " + rs + " test=neg field=" + f.name + " off=" + str(off) + " val=" + str(v);
                    if (o == O_BAD) report(g_bad, "reply perturbed at " + str(off), kase);
                    else if (o == O_TRUE) {
                        std::string sig = "match:stranger-accepted:" + f.name + clsfx;
                        // an ICMP reply type turned into an ICMP error is decided by the IPv4 layer, not the ICMP layer
                        if (f.name == "icmp.reply-type" && (v == 3 || v == 11 || v == 12)) sig += ":icmp-error-type";
                        report(sig, "reply differing from the mirror in byte " + str(off) + " (" + f.name + ": " + str((int)orig) + " -> " + str(v) +
                               ") is accepted; request address class: " + f.cls + " (reference table: not exempt); stack " + st + " request=" +
                               hex(req_wire) + " reply=" + hex(b.p, b.n), kase);
                    } else if (o == O_FALSE && f.exempt) {
                        report("match:exempt-class-reply-rejected:" + f.name + clsfx, "request address class " + f.cls + " is exempt in the reference table (a reply may carry "
                               "any value in " + f.name + "), but the reply with byte " + str(off) + " " + str((int)orig) + " -> " + str(v) + " is rejected; stack " + st +
                               " request=" + hex(req_wire) + " reply=" + hex(b.p, b.n), kase);
                    } else if (o == O_TINS_EXC) {
                        report("exc:libtins-exception-on-reply:" + f.name, "matches_response threw on a perturbed reply", kase);
                    }
                }
                b.p[off] = orig;
            }
            R.count("negative_fields");
        }
        R.dist("distinct_outcomes", fnv("neg0"));
    }
    // ---- the mirror once more after all the other calls on this request object: the verdict must not have changed
    if (!only || want == "pos") {
        Block b(m.data(), m.size());
        Outcome o = call_match(*req, b.p, (uint32_t)b.n, st);
        R.count("evaluations"); R.count("positive_reevaluations");
        if (first_pos == O_TRUE && o != O_TRUE)
            report(o == O_BAD ? g_bad : "history:verdict-changed-within-request:" + st,
                   "the mirrored reply was accepted at first and is rejected after the negative evaluations on the same request object",
                   "part=func " + rs + " test=all");
    }
    // ---- ICMP errors from strangers about a different packet (IPv4 only)
    if (r.net == 4 && !ref_ip4_reply_dst_any(r.sip4, r.dip4) && (!only || want == "icmperr")) {
        static const int types[] = {3, 11, 12};
        static const int codes[] = {0, 1, 3, 13};
        for (int ti = 0; ti < 3; ++ti) for (int ci = 0; ci < 4; ++ci) for (int xv = 0; xv < 2; ++xv) for (int yv = 0; yv < 2; ++yv) for (int qv = 0; qv < 3; ++qv) {
            if (only && (num(only->at("type")) != types[ti] || num(only->at("code")) != codes[ci] || num(only->at("x")) != xv ||
                         num(only->at("y")) != yv || num(only->at("q")) != qv)) continue;
            Bytes e = icmp_error_packet(r, req_wire, types[ti], codes[ci], xv, yv, qv);
            Block b(e.data(), e.size());
            Outcome o = call_match(*req, b.p, (uint32_t)b.n, st);
            R.count("evaluations"); R.count("stranger_icmp_error_evaluations");
            if (o == O_FALSE) continue;
            if (o == O_TRUE && !verbose) {
                std::map<std::string, Violation>::iterator it = R.violations.find("match:stranger-accepted:icmp-error-other-addresses-other-quote");
                if (it != R.violations.end() && it->second.kase.size() <= rs.size() + 49) { it->second.count++; bad++; continue; }
            }
            std::string kase = "part=func " + rs + " test=icmperr type=" + str(types[ti]) + " code=" + str(codes[ci]) + " x=" + str(xv) + " y=" + str(yv) + " q=" + str(qv);
            if (o == O_BAD) report(g_bad, "stranger ICMP error", kase);
            else if (o == O_TRUE)
                report("match:stranger-accepted:icmp-error-other-addresses-other-quote",
                       "an ICMP error (type " + str(types[ti]) + ") whose source AND destination differ from the mirrored addresses and whose quoted "
                       "header differs from the request's is accepted; request=" + hex(req_wire) + " packet=" + hex(e), kase);
        }
    }
    return bad;
}

// ---- value sets ---------------------------------------------------------------------------------------------------
struct Groups {
    std::vector<std::pair<Mac, Mac> > link;                       // (src, dst)
    std::vector<std::pair<int, int> > vlan;                       // (vid, pcp<<1|cfi)
    std::vector<std::pair<IPv4Address, IPv4Address> > net4;
    std::vector<std::pair<IPv6Address, IPv6Address> > net6;
    std::vector<std::pair<int, int> > pairs16p, pairs16i;         // ports ; id/seq
    std::vector<int> dnsids;
    size_t r_link, r_vlan, r_net4, r_net6, r_p, r_dns;            // sizes of the reduced prefixes
};

template <class T>
static void pair_list(const std::vector<T>& S, const std::vector<T>& D, const std::vector<std::pair<int, int> >& first,
                      std::vector<std::pair<T, T> >& out) {
    std::set<std::pair<int, int> > done;
    for (auto& p : first) { out.push_back(std::make_pair(S[p.first], D[p.second])); done.insert(p); }
    for (size_t i = 0; i < S.size(); ++i) for (size_t j = 0; j < D.size(); ++j)
        if (!done.count(std::make_pair((int)i, (int)j))) out.push_back(std::make_pair(S[i], D[j]));
}

static const Groups& groups() {
    static Groups g;
    static bool init = false;
    if (init) return g;
    init = true;
    // MAC: sources are unicast; destinations additionally broadcast / multicast.  Index 0/1 differ in the last byte, 0/2 in the
    // first byte (locally administered bit), 0/3 in a middle byte.
    std::vector<Mac> ms = {Mac("00:00:00:00:00:01"), Mac("00:00:00:00:00:02"), Mac("02:00:00:00:00:01"), Mac("00:00:00:01:00:01"),
                           Mac("fe:ff:ff:ff:ff:ff"), Mac("00:11:22:33:44:55")};
    std::vector<Mac> md = ms;
    md.push_back(Mac("ff:ff:ff:ff:ff:ff")); md.push_back(Mac("01:00:5e:00:00:01")); md.push_back(Mac("33:33:00:00:00:01"));
    md.push_back(Mac("01:80:c2:00:00:00")); md.push_back(Mac("03:00:00:00:00:01"));      // other group addresses (I/G bit), fe:ff.. above is unicast
    pair_list(ms, md, {{0, 1}, {1, 0}, {0, 2}, {0, 3}, {0, 6}, {0, 7}, {4, 6}, {0, 0}, {5, 4}, {2, 8}}, g.link);
    g.r_link = 10;
    int vids[] = {0x064, 0, 1, 0x0ff, 0x100, 0xfff, 0xf00, 0x555};
    for (int pc = 0; pc < 2; ++pc) for (int v : vids) g.vlan.push_back(std::make_pair(v, pc ? 0xf : 0));
    g.r_vlan = 6;
    std::vector<IPv4Address> s4 = {"10.0.0.1", "10.0.0.2", "10.0.1.1", "10.1.0.1", "11.0.0.1", "255.255.255.254", "127.0.0.1", "1.0.0.0"};
    std::vector<IPv4Address> d4 = s4;
    d4.push_back("255.255.255.255"); d4.push_back("224.0.0.1"); d4.push_back("239.255.255.255");
    pair_list(s4, d4, {{0, 1}, {1, 0}, {0, 2}, {0, 3}, {0, 4}, {0, 8}, {0, 9}, {5, 8}, {0, 0}, {7, 6}, {4, 5}, {0, 10}}, g.net4);
    g.r_net4 = 12;
    // address-class representatives and their neighbours across each class boundary (appended: full sets only), base source -> d
    for (const char* d : {"10.0.0.255", "223.255.255.255", "224.0.0.0", "240.0.0.1", "255.255.255.0", "0.0.0.0"})
        g.net4.push_back(std::make_pair(s4[0], IPv4Address(d)));
    // a host without an address: 0.0.0.0 -> unicast / limited broadcast / multicast (only under a link layer, see req_valid)
    for (const char* d : {"10.0.0.2", "255.255.255.255", "224.0.0.1", "255.255.255.254"})
        g.net4.push_back(std::make_pair(IPv4Address("0.0.0.0"), IPv4Address(d)));
    std::vector<IPv6Address> s6 = {"2001:db8::1", "2001:db8::2", "2001:db8::1:0:0:1", "2001:db9::1", "3001:db8::1", "::1", "fe80::1",
                                   "::ffff:10.0.0.1"};
    std::vector<IPv6Address> d6 = s6;
    d6.push_back("ff02::1"); d6.push_back("ff02::1:ff00:1"); d6.push_back("ff05::2"); d6.push_back("ff0e::1");
    pair_list(s6, d6, {{0, 1}, {1, 0}, {0, 2}, {0, 3}, {0, 4}, {0, 8}, {0, 10}, {6, 9}, {0, 0}, {5, 5}, {7, 6}, {0, 11}}, g.net6);
    g.r_net6 = 12;
    for (const char* d : {"ff01::1", "ff03::1", "ff12::1", "ff00::", "ff02::", "ff02:ffff:ffff:ffff:ffff:ffff:ffff:ffff", "ff0f::1", "fe02::", "feff::1", "::", "fec0::1"})
        g.net6.push_back(std::make_pair(s6[0], IPv6Address(d)));
    for (const char* d : {"2001:db8::2", "ff02::1", "ff02::1:ff00:1", "ff05::2"})      // unspecified source (DAD, RFC 4862)
        g.net6.push_back(std::make_pair(IPv6Address("::"), IPv6Address(d)));
    int ports[] = {0, 1, 53, 0x100, 0xffff};
    int ids[] = {0, 1, 0x00ff, 0xff00, 0xffff};
    // base first: (sport 0x100 -> dport 53), (id 0x00ff, seq 0xff00)
    g.pairs16p.push_back(std::make_pair(0x100, 53));
    g.pairs16i.push_back(std::make_pair(0x00ff, 0xff00));
    for (int a : ports) for (int b : ports) if (!(a == 0x100 && b == 53)) g.pairs16p.push_back(std::make_pair(a, b));
    for (int a : ids) for (int b : ids) if (!(a == 0x00ff && b == 0xff00)) g.pairs16i.push_back(std::make_pair(a, b));
    g.r_p = 9;
    g.dnsids = {0x00ff, 0, 1, 0xff00, 0xffff};
    g.r_dns = 3;
    return g;
}

static const int* plens(int l4, int& n) {
    static const int tcp[] = {0, 7}, udp[] = {24, 1}, echo[] = {16, 0, 40}, ts[] = {16, 0}, dns[] = {0};
    switch (l4) {
        case L4_TCP: n = 2; return tcp;
        case L4_UDP: n = 2; return udp;
        case L4_ICMP_ECHO: n = 3; return echo;
        case L4_ICMP_TS: case L4_ICMP_MASK: case L4_ICMP6_ECHO: n = 2; return ts;
        default: n = 1; return dns;
    }
}

// group sizes (full, reduced) for a stack; groups: 0 link, 1 vlan, 2 net, 3 l4 identifiers, 4 dns id, 5 payload length, 6 network header variant
static void group_sizes(int link, int net, int l4, size_t full[7], size_t red[7]) {
    const Groups& g = groups();
    full[0] = link == LINK_NONE ? 1 : g.link.size();  red[0] = link == LINK_NONE ? 1 : g.r_link;
    full[1] = link == LINK_DOT1Q ? g.vlan.size() : 1; red[1] = link == LINK_DOT1Q ? g.r_vlan : 1;
    full[2] = net == 4 ? g.net4.size() : g.net6.size(); red[2] = net == 4 ? g.r_net4 : g.r_net6;
    full[3] = g.pairs16p.size(); red[3] = g.r_p;
    full[4] = l4 == L4_DNS ? g.dnsids.size() : 1; red[4] = l4 == L4_DNS ? g.r_dns : 1;
    int n; plens(l4, n);
    full[5] = n; red[5] = n;
    full[6] = 3; red[6] = 3;      // network header variants
}

static Req make_req(int link, int net, int l4, const size_t ix[7]) {
    const Groups& g = groups();
    Req r = Req();
    r.link = link; r.net = net; r.l4 = l4;
    if (link != LINK_NONE) { r.smac = g.link[ix[0]].first; r.dmac = g.link[ix[0]].second; }
    if (link == LINK_DOT1Q) { r.vid = g.vlan[ix[1]].first; r.pcp = g.vlan[ix[1]].second >> 1; r.cfi = g.vlan[ix[1]].second & 1; }
    if (net == 4) { r.sip4 = g.net4[ix[2]].first; r.dip4 = g.net4[ix[2]].second; }
    else { r.sip6 = g.net6[ix[2]].first; r.dip6 = g.net6[ix[2]].second; }
    if (l4 == L4_TCP || l4 == L4_UDP || l4 == L4_DNS) { r.sport = g.pairs16p[ix[3]].first; r.dport = g.pairs16p[ix[3]].second; }
    else { r.id = g.pairs16i[ix[3]].first; r.seq = g.pairs16i[ix[3]].second; }
    if (l4 == L4_DNS) r.dnsid = g.dnsids[ix[4]];
    int n; const int* pl = plens(l4, n);
    r.plen = pl[ix[5]];
    r.nopt = (int)ix[6];
    return r;
}

static bool stack_valid(int net, int l4) {
    if (net == 4) return l4 != L4_ICMP6_ECHO;
    return l4 == L4_TCP || l4 == L4_UDP || l4 == L4_ICMP6_ECHO || l4 == L4_DNS;
}

// Enumerate every request deviating from the base request (index 0 everywhere) in the groups of `subset`:
//   |subset| <= 1: full value sets;  |subset| == 2: reduced sets (quick) / full sets (thorough);
//   |subset| == 3: thorough only, reduced sets.
// a root IP with source 0.0.0.0 asks the host's routing table when serialized (request: source, mirror: the request's destination)
static bool req_valid(const Req& r) {
    if (r.net == 4 && r.link == LINK_NONE && ((uint32_t)r.sip4 == 0 || (uint32_t)r.dip4 == 0)) return false;
    return true;
}

template <class F>
static void for_each_request(bool thorough, F f) {
    for (int link = 0; link < 3; ++link) for (int net = 4; net <= 6; net += 2) for (int l4 = 0; l4 < L4_COUNT; ++l4) {
        if (!stack_valid(net, l4)) continue;
        size_t full[7], red[7];
        group_sizes(link, net, l4, full, red);
        for (unsigned sub = 0; sub < 128; ++sub) {
            int bits = __builtin_popcount(sub);
            if (bits > (thorough ? 3 : 2)) continue;
            const size_t* lim = (bits <= 1 || (bits == 2 && thorough)) ? full : red;
            bool ok = true;
            for (int g = 0; g < 7; ++g) if ((sub >> g & 1) && lim[g] < 2) ok = false;
            if (!ok) continue;
            size_t ix[7] = {0, 0, 0, 0, 0, 0, 0};
            for (int g = 0; g < 7; ++g) if (sub >> g & 1) ix[g] = 1;
            for (;;) {
                { Req rq = make_req(link, net, l4, ix); if (req_valid(rq)) f(rq); }
                int g = 0;
                for (; g < 7; ++g) {
                    if (!(sub >> g & 1)) continue;
                    if (++ix[g] < lim[g]) break;
                    ix[g] = 1;
                }
                if (g == 7) break;
            }
        }
    }
}


// ------------------------------------------------------------------ call-history part
// Matchers are const functions of (request, reply bytes).  Anything remembered from an earlier call (a function-local static, a
// cached header size, a lazily filled table) makes the verdict depend on what the process matched before.  This part is the
// FIRST thing a job does, so the first probe really is the first matcher call of the process; every job starts at a different probe.
static std::vector<Req> hist_probes() {
    std::vector<Req> p;
    for (int size_rank = 0; size_rank < 3; ++size_rank)          // ascending network header size: 20/40, 24/48, 32/64
        for (int link = 0; link < 3; ++link) for (int net = 4; net <= 6; net += 2) for (int l4 = 0; l4 < L4_COUNT; ++l4) {
            if (!stack_valid(net, l4)) continue;
            size_t ix[7] = {0, 0, 0, 0, 0, 0, (size_t)size_rank};
            p.push_back(make_req(link, net, l4, ix));
        }
    return p;
}

// positive + a reduced negative family of one probe, judged by the same oracle as the functional part; returns the verdict vector's hash
static uint64_t probe_eval(const Req& r, const std::string& kase, const std::string& where, int& bad, bool verbose) {
    std::string st = stack_name(r) + (r.nopt ? "+hdr" + str(net_hdr(r)) : "");
    std::unique_ptr<PDU> req = build_request(r);
    Bytes req_wire = req->serialize();
    Bytes m = build_mirror_pdu(r)->serialize();
    std::string lay = check_mirror_layout(r, m);
    if (!lay.empty()) { R.violation("harness:mirror-layout:" + lay, "mirror wire image does not carry the mirrored values: " + hex(m), "part=func " + req_str(r) + " test=pos"); bad++; return 0; }
    auto report = [&](const std::string& sig, const std::string& detail) {
        R.violation(sig, detail + " [" + where + "] request=" + hex(req_wire) + " mirror=" + hex(m), kase); bad++;
        if (verbose) printf("violation: %s\n  %s [%s]\n  request %s\n", sig.c_str(), detail.c_str(), where.c_str(), req_str(r).c_str());
    };
    Block b(m.data(), m.size());
    uint64_t h = fnv(st);
    Outcome o = call_match(*req, b.p, (uint32_t)b.n, st);
    R.count("evaluations"); R.count("history_evaluations");
    h = fnv(&o, sizeof o, h);
    if (o == O_BAD) report(g_bad, "during matches_response(mirror)");
    else if (o != O_TRUE) report("match:mirror-rejected:" + st, "the mirrored reply is rejected");
    std::vector<Field> fields = matched_fields(r);
    for (size_t fi = 0; fi < fields.size(); ++fi) {
        const Field& f = fields[fi];
        for (int k = 0; k < f.len; ++k) {
            int off = f.off + k;
            uint8_t orig = b.p[off], mask = k == 0 ? f.mask : 0xff;
            uint8_t vals[6] = {(uint8_t)(orig ^ 0x01), (uint8_t)(orig ^ 0x80), (uint8_t)(orig ^ 0xff), 0x00, 0xff, 0x03};
            for (int vi = 0; vi < 6; ++vi) {
                bool dup = ((vals[vi] ^ orig) & mask) == 0;
                for (int vj = 0; vj < vi; ++vj) if (vals[vj] == vals[vi]) dup = true;
                if (dup) continue;
                b.p[off] = vals[vi];
                o = call_match(*req, b.p, (uint32_t)b.n, st);
                R.count("evaluations"); R.count("history_evaluations");
                h = fnv(&o, sizeof o, h);
                if (o == O_BAD) report(g_bad, "reply perturbed at " + str(off));
                else if (o == O_TRUE && !f.exempt)
                    report("match:stranger-accepted:" + f.name + (f.cls == "unicast" ? "" : ":to-" + f.cls), "reply differing from the mirror in byte " + str(off) +
                           " (" + f.name + ": " + str((int)orig) + " -> " + str((int)vals[vi]) + ") is accepted");
                else if (o == O_FALSE && f.exempt)
                    report("match:exempt-class-reply-rejected:" + f.name + ":to-" + f.cls, "reply with byte " + str(off) + " changed is rejected although the class is exempt");
            }
            b.p[off] = orig;
        }
    }
    return h;
}

static int hist_pass(int rot, bool verbose) {
    int bad = 0;
    std::vector<Req> P = hist_probes();
    size_t n = P.size();
    std::string kase = "part=hist rot=" + str(rot);
    std::vector<size_t> order;
    for (size_t i = 0; i < n; ++i) order.push_back((i + rot) % n);                 // ascending header size, started at probe `rot`
    for (size_t i = 0; i < n; ++i) order.push_back(order[n - 1 - i]);              // the same probes in the opposite order
    order.push_back(order[0]);                                                     // and the very first one again
    std::map<size_t, uint64_t> first_verdicts;
    for (size_t k = 0; k < order.size(); ++k) {
        const Req& r = P[order[k]];
        std::string where = "call-history pass, position " + str(k) + " of " + str(order.size()) + ", first probe of the process: " +
                            stack_name(P[order[0]]) + " with a " + str(net_hdr(P[order[0]])) + "-byte network header";
        uint64_t h = probe_eval(r, kase, where, bad, verbose);
        R.count("history_probes_judged");
        R.dist("history_distinct_probes", fnv(req_str(r)));
        if (!first_verdicts.count(order[k])) first_verdicts[order[k]] = h;
        else if (first_verdicts[order[k]] != h) {
            bad++;
            R.violation("history:verdict-depends-on-call-order:" + stack_name(r),
                        "the same request and the same reply buffers got different verdicts at two points of one process [" + where + "] request: " + req_str(r), kase);
            if (verbose) printf("violation: verdicts of %s differ between two evaluations in one process\n", req_str(r).c_str());
        }
    }
    return bad;
}

// ------------------------------------------------------------------ minimal-mirror part
// Which classes have a matcher of their own is read from the tree being checked: the generated table lists every concrete PDU
// class, and the class that DECLARES T::matches_response is visible in the type of the member pointer.
template <class C> static C matcher_owner(bool (C::*)(const uint8_t*, uint32_t) const);
template <class T> struct has_own_matcher {
    typedef decltype(matcher_owner(&T::matches_response)) owner;
    static const bool value = !std::is_same<owner, PDU>::value;
};
struct ClsRow { std::string name; const std::type_info* ti; bool overrides; };
static const std::vector<ClsRow>& class_table() {
    static std::vector<ClsRow> rows;
    if (rows.empty()) {
#define TINS_PDU_CONCRETE(Q, ID, DEFCTOR, BUFCTOR) rows.push_back(ClsRow{#Q, &typeid(Q), has_own_matcher<Q>::value});
#include "classes.inc"
#undef TINS_PDU_CONCRETE
    }
    return rows;
}
static std::string class_of(const PDU& p) {
    for (auto& r : class_table()) if (*r.ti == typeid(p)) return r.name;
    return "";
}

// One layer of a minimal case: the request layer, the mirrored reply layer (built separately, field by field), and the size the
// protocol gives the reply layer in its minimal form (RFC 791/8200/793/768/792/4443/1035/951/2131/8415/826, IEEE 802.3/802.1Q).
struct Atom { std::string name; std::function<PDU*()> req, rep; int size; };

static const Mac MIN_A_MAC("00:00:00:00:00:01"), MIN_B_MAC("00:00:00:00:00:02");
static const IPv4Address MIN_A4("10.0.0.1"), MIN_B4("10.0.0.2");
static const IPv6Address MIN_A6("2001:db8::1"), MIN_B6("2001:db8::2");

static const std::map<std::string, Atom>& atoms() {
    static std::map<std::string, Atom> m;
    if (!m.empty()) return m;
    auto add = [&](const std::string& n, std::function<PDU*()> rq, std::function<PDU*()> rp, int size) { m[n] = Atom{n, rq, rp, size}; };
    add("eth", []() -> PDU* { return new EthernetII(MIN_B_MAC, MIN_A_MAC); },
               []() -> PDU* { EthernetII* e = new EthernetII(); e->dst_addr(MIN_A_MAC); e->src_addr(MIN_B_MAC); return e; }, 14);
    add("dot3", []() -> PDU* { return new Dot3(MIN_B_MAC, MIN_A_MAC); },
                []() -> PDU* { Dot3* e = new Dot3(); e->dst_addr(MIN_A_MAC); e->src_addr(MIN_B_MAC); return e; }, 14);
    add("dot1q", []() -> PDU* { return new Dot1Q(100); }, []() -> PDU* { Dot1Q* q = new Dot1Q(); q->id(100); q->priority(5); return q; }, 4);
    add("loop", []() -> PDU* { return new Loopback(); }, []() -> PDU* { return new Loopback(); }, 4);
    add("radiotap", []() -> PDU* { return new RadioTap(); },      // reply: a radiotap header without fields (version 0, length 8, present 0)
                    []() -> PDU* { static const uint8_t h[8] = {0, 0, 8, 0, 0, 0, 0, 0}; return new RawPDU(h, 8); }, 8);
    add("ip4", []() -> PDU* { IP* ip = new IP(MIN_B4, MIN_A4); ip->ttl(64); return ip; },
               []() -> PDU* { IP* ip = new IP(); ip->dst_addr(MIN_A4); ip->src_addr(MIN_B4); ip->ttl(57); ip->id(0x4321); return ip; }, 20);
    add("ip6", []() -> PDU* { IPv6* ip = new IPv6(MIN_B6, MIN_A6); ip->hop_limit(64); return ip; },
               []() -> PDU* { IPv6* ip = new IPv6(); ip->dst_addr(MIN_A6); ip->src_addr(MIN_B6); ip->hop_limit(57); return ip; }, 40);
    add("tcp", []() -> PDU* { TCP* t = new TCP(53, 0x100); t->flags(TCP::SYN); t->seq(7); return t; },
               []() -> PDU* { TCP* t = new TCP(); t->dport(0x100); t->sport(53); t->flags(TCP::SYN | TCP::ACK); t->ack_seq(8); return t; }, 20);
    add("udp", []() -> PDU* { return new UDP(53, 0x100); }, []() -> PDU* { UDP* u = new UDP(); u->dport(0x100); u->sport(53); return u; }, 8);
    add("udp-bootp", []() -> PDU* { return new UDP(67, 68); }, []() -> PDU* { UDP* u = new UDP(); u->dport(68); u->sport(67); return u; }, 8);
    add("udp-dhcp6", []() -> PDU* { return new UDP(547, 546); }, []() -> PDU* { UDP* u = new UDP(); u->dport(546); u->sport(547); return u; }, 8);
    add("icmp-echo", []() -> PDU* { ICMP* c = new ICMP(ICMP::ECHO_REQUEST); c->id(0x00ff); c->sequence(0xff00); return c; },
                     []() -> PDU* { ICMP* c = new ICMP(); c->type(ICMP::ECHO_REPLY); c->id(0x00ff); c->sequence(0xff00); return c; }, 8);
    add("icmp-timestamp", []() -> PDU* { ICMP* c = new ICMP(ICMP::TIMESTAMP_REQUEST); c->id(0x00ff); c->sequence(0xff00); return c; },
                          []() -> PDU* { ICMP* c = new ICMP(); c->type(ICMP::TIMESTAMP_REPLY); c->id(0x00ff); c->sequence(0xff00); c->receive_timestamp(5); return c; }, 20);
    add("icmp-addrmask", []() -> PDU* { ICMP* c = new ICMP(ICMP::ADDRESS_MASK_REQUEST); c->id(0x00ff); c->sequence(0xff00); return c; },
                         []() -> PDU* { ICMP* c = new ICMP(); c->type(ICMP::ADDRESS_MASK_REPLY); c->id(0x00ff); c->sequence(0xff00); c->address_mask("255.0.0.0"); return c; }, 12);
    add("icmp6-echo", []() -> PDU* { ICMPv6* c = new ICMPv6(ICMPv6::ECHO_REQUEST); c->identifier(0x00ff); c->sequence(0xff00); return c; },
                      []() -> PDU* { ICMPv6* c = new ICMPv6(); c->type(ICMPv6::ECHO_REPLY); c->identifier(0x00ff); c->sequence(0xff00); return c; }, 8);
    // DNS: the reply is a header-only message (no question, no records); the request with and without a question
    add("dns-q", []() -> PDU* { DNS* d = new DNS(); d->id(0x1234); d->type(DNS::QUERY); d->add_query(DNS::query("www.example.com", DNS::A, DNS::IN)); return d; },
                 []() -> PDU* { DNS* d = new DNS(); d->id(0x1234); d->type(DNS::RESPONSE); d->rcode(2); return d; }, 12);
    add("dns-0", []() -> PDU* { DNS* d = new DNS(); d->id(0x1234); d->type(DNS::QUERY); return d; },
                 []() -> PDU* { DNS* d = new DNS(); d->id(0x1234); d->type(DNS::RESPONSE); return d; }, 12);
    add("bootp", []() -> PDU* { BootP* b = new BootP(); b->opcode(1); b->xid(0x01020304); return b; },
                 []() -> PDU* { BootP* b = new BootP(); b->opcode(2); b->xid(0x01020304); b->yiaddr("10.0.0.9"); b->vend(BootP::vend_type()); return b; }, 236);
    // ... and with the 64-byte vendor area of RFC 951
    add("bootp-300", []() -> PDU* { BootP* b = new BootP(); b->opcode(1); b->xid(0x01020304); return b; },
                     []() -> PDU* { BootP* b = new BootP(); b->opcode(2); b->xid(0x01020304); return b; }, 300);
    // a DHCP request answered by a plain BOOTP reply of exactly the fixed size, and by a minimal DHCP message (cookie + type + END)
    add("dhcp-b", []() -> PDU* { DHCP* d = new DHCP(); d->xid(0x01020304); d->type(DHCP::DISCOVER); d->end(); return d; },
                  []() -> PDU* { BootP* b = new BootP(); b->opcode(2); b->xid(0x01020304); b->vend(BootP::vend_type()); return b; }, 236);
    add("dhcp-d", []() -> PDU* { DHCP* d = new DHCP(); d->xid(0x01020304); d->type(DHCP::DISCOVER); d->end(); return d; },
                  []() -> PDU* { DHCP* d = new DHCP(); d->opcode(2); d->xid(0x01020304); d->type(DHCP::OFFER); d->end(); return d; }, 244);
    add("dhcp6", []() -> PDU* { DHCPv6* d = new DHCPv6(); d->msg_type(DHCPv6::SOLICIT); d->transaction_id(0x010203); return d; },
                 []() -> PDU* { DHCPv6* d = new DHCPv6(); d->msg_type(DHCPv6::ADVERTISE); d->transaction_id(0x010203); return d; }, 4);
    add("arp", []() -> PDU* { ARP* a = new ARP(MIN_B4, MIN_A4, Mac("00:00:00:00:00:00"), MIN_A_MAC); a->opcode(ARP::REQUEST); return a; },
               []() -> PDU* { ARP* a = new ARP(); a->opcode(ARP::REPLY); a->sender_ip_addr(MIN_B4); a->sender_hw_addr(MIN_B_MAC);
                              a->target_ip_addr(MIN_A4); a->target_hw_addr(MIN_A_MAC); return a; }, 28);
    add("raw", []() -> PDU* { return new RawPDU("x"); }, []() -> PDU* { return new RawPDU(""); }, 0);
    return m;
}

typedef std::vector<std::string> MPath;
static std::string path_name(const MPath& p) { std::string s; for (size_t i = 0; i < p.size(); ++i) s += (i ? "/" : "") + p[i]; return s; }

static std::vector<MPath> min_paths() {
    std::vector<MPath> out;
    std::set<std::string> seen;
    auto add = [&](const MPath& full) {           // the path and every non-empty prefix of it (truncated stacks)
        for (size_t n = 1; n <= full.size(); ++n) {
            MPath p(full.begin(), full.begin() + n);
            if (seen.insert(path_name(p)).second) out.push_back(p);
        }
    };
    std::vector<MPath> roots = {{}, {"eth"}, {"eth", "dot1q"}, {"dot1q"}, {"loop"}};
    std::vector<MPath> over4 = {{"tcp"}, {"udp"}, {"icmp-echo"}, {"icmp-timestamp"}, {"icmp-addrmask"}, {"udp", "dns-q"}, {"udp", "dns-0"},
                                {"udp-bootp", "bootp"}, {"udp-bootp", "bootp-300"}, {"udp-bootp", "dhcp-b"}, {"udp-bootp", "dhcp-d"}};
    std::vector<MPath> over6 = {{"tcp"}, {"udp"}, {"icmp6-echo"}, {"udp", "dns-q"}, {"udp", "dns-0"}, {"udp-dhcp6", "dhcp6"}};
    for (auto& r : roots) {
        for (auto& t : over4) { MPath p = r; p.push_back("ip4"); p.insert(p.end(), t.begin(), t.end()); add(p); }
        for (auto& t : over6) { MPath p = r; p.push_back("ip6"); p.insert(p.end(), t.begin(), t.end()); add(p); }
    }
    add({"eth", "arp"}); add({"dot3"}); add({"radiotap"});
    // every matcher class called directly on a bare object
    for (const char* a : {"arp", "tcp", "udp", "icmp-echo", "icmp-timestamp", "icmp-addrmask", "icmp6-echo", "dns-q", "dns-0", "bootp", "bootp-300", "dhcp-b", "dhcp-d",
                          "dhcp6", "raw"}) add({a});
    return out;
}

struct MinCover { std::set<std::string> exact, plus1, tried_exact, tried_plus1; };   // accepted / attempted, per class
static MinCover g_cover;

struct MinCase { std::unique_ptr<PDU> req; Bytes exact, serialized; std::vector<std::string> classes; std::vector<int> sizes; std::string err; };

static void build_min_case(const MPath& path, MinCase& c) {
    std::unique_ptr<PDU> rep;
    int total = 0;
    for (auto& an : path) {
        const Atom& a = atoms().at(an);
        std::unique_ptr<PDU> q(a.req()), p(a.rep());
        push(c.req, *q); push(rep, *p);
        c.sizes.push_back(a.size); total += a.size;
    }
    // a UDP request is only matchable with a payload (documented: UDP::matches_response needs a child): the reply stays header-only
    if (atoms().at(path.back()).name.compare(0, 3, "udp") == 0) { push(c.req, RawPDU("ping")); c.sizes.push_back(0); }
    for (PDU* l = c.req.get(); l; l = l->inner_pdu()) c.classes.push_back(class_of(*l));
    c.req->serialize();                        // as send_recv: the request is sent before anything is matched
    c.serialized = rep->serialize();
    // self-check: the reply is the sum of the protocol's minimal header sizes, followed only by link-layer zero padding
    bool pads = path[0] == "eth" || path[0] == "dot1q";
    if ((int)c.serialized.size() < total || (!pads && (int)c.serialized.size() != total)) { c.err = "size " + str(c.serialized.size()) + " != " + str(total); return; }
    for (size_t i = total; i < c.serialized.size(); ++i) if (c.serialized[i]) { c.err = "non-zero byte after the headers"; return; }
    c.exact.assign(c.serialized.begin(), c.serialized.begin() + total);
}

// variants: exact | plus1 | plus1ff | padded | cut<N> (the first N bytes of the exact reply, safety oracle only)
static int run_min_case(const MPath& path, const std::string& only_var, bool verbose) {
    int bad = 0;
    std::string pn = path_name(path);
    MinCase c;
    build_min_case(path, c);
    if (!c.err.empty()) { R.violation("harness:minimal-reply-size:" + pn, c.err + " serialized=" + hex(c.serialized), "part=min path=" + pn + " var=exact"); return 1; }
    std::string last_cls = c.classes[path.size() - 1];
    auto eval = [&](const std::string& var, const Bytes& reply, bool judged, int trailing) {
        if (!only_var.empty() && only_var != var) return;
        Block b(reply.data(), reply.size());
        Outcome o = call_match(*c.req, b.p, (uint32_t)b.n, pn);
        R.count("evaluations"); R.count(judged ? "minimal_mirror_evaluations" : "minimal_prefix_evaluations");
        std::string kase = "part=min path=" + pn + " var=" + var;
        if (verbose) printf("%s %s: %zu-byte reply %s -> %s\n", pn.c_str(), var.c_str(), reply.size(), hex(reply).c_str(),
                            o == O_TRUE ? "true" : o == O_FALSE ? "false" : o == O_TINS_EXC ? "libtins exception" : g_bad.c_str());
        if (o == O_BAD) { R.violation(g_bad, "minimal reply " + pn + " " + var + ": " + hex(reply) + " " + Mon::first_detail, kase); bad++; return; }
        if (!judged) { R.count(o == O_TRUE ? "minimal_prefix_accepted" : "minimal_prefix_rejected"); return; }
        R.dist("distinct_minimal_cases", fnv(pn + var));
        auto cover = [&](std::set<std::string>& ex, std::set<std::string>& p1) {
            // layer i of the request sees what is left of the buffer from its own header on
            int left = (int)reply.size();
            for (size_t i = 0; i < c.classes.size(); ++i) {
                int own = c.sizes[i];
                if (!c.classes[i].empty() && left == own) ex.insert(c.classes[i]);
                if (!c.classes[i].empty() && left == own + 1) p1.insert(c.classes[i]);
                left -= own;
            }
        };
        if (trailing == 0 || trailing == 1) cover(g_cover.tried_exact, g_cover.tried_plus1);
        if (o != O_TRUE) {
            R.violation("match:minimal-mirror-rejected:" + (last_cls.empty() ? pn : last_cls) + ":" + (var == "plus1ff" ? "plus1" : var),
                        "the mirrored reply in minimal form (" + pn + ", " + str(reply.size()) + " bytes = header sizes" +
                        (trailing > 0 ? " + " + str(trailing) + " trailing byte(s)" : "") + ") is rejected; request layers: " + path_name(c.classes) +
                        " reply=" + hex(reply), kase);
            bad++;
            return;
        }
        R.count("minimal_mirrors_accepted");
        if (trailing == 0 || trailing == 1) cover(g_cover.exact, g_cover.plus1);
    };
    eval("exact", c.exact, true, 0);
    Bytes p1 = c.exact; p1.push_back(0x00); eval("plus1", p1, true, 1);
    Bytes pf = c.exact; pf.push_back(0xff); eval("plus1ff", pf, true, 1);
    if (c.serialized.size() > c.exact.size()) eval("padded", c.serialized, true, (int)(c.serialized.size() - c.exact.size()));
    for (size_t n = 0; n < c.exact.size(); ++n) eval("cut" + str(n), Bytes(c.exact.begin(), c.exact.begin() + n), false, -1);
    return bad;
}

static int min_part(bool verbose) {
    int bad = 0;
    std::vector<MPath> paths = min_paths();
    for (auto& p : paths) { bad += run_min_case(p, "", verbose); R.count("minimal_paths"); }
    // obligations from the generated class table
    std::string with, without;
    for (auto& r : class_table()) {
        (r.overrides ? with : without) += (r.overrides ? (with.empty() ? "" : " ") : (without.empty() ? "" : " ")) + r.name.substr(r.name.rfind(':') + 1);
        if (!r.overrides) continue;
        R.count("classes_with_own_matcher");
        if (g_cover.exact.count(r.name)) R.count("classes_last_layer_exact_accepted");
        if (g_cover.plus1.count(r.name)) R.count("classes_last_layer_plus1_accepted");
        // a class whose minimal mirror exists but is rejected is reported by match:minimal-mirror-rejected; this is for a class
        // (e.g. one added to libtins later) for which the harness has no minimal mirror at all
        if (!g_cover.tried_exact.count(r.name)) {
            R.violation("harness:minimal-mirror-missing:" + r.name + ":exact", "class " + r.name + " overrides matches_response but the harness has no minimal mirror that ends exactly at "
                        "the end of its minimal header", "part=min path=all var=all");
            bad++;
        }
        if (!g_cover.tried_plus1.count(r.name)) {
            R.violation("harness:minimal-mirror-missing:" + r.name + ":plus1", "class " + r.name + " overrides matches_response but the harness has no minimal mirror with exactly one "
                        "byte behind its minimal header", "part=min path=all var=all");
            bad++;
        }
    }
    R.info["classes_with_own_matcher_list"] = jstr(with);
    R.info["concrete_classes_without_matcher"] = jstr(without);
    R.count("concrete_classes_in_generated_table", class_table().size());
    return bad;
}

// ------------------------------------------------------------------ safety part
struct Seed { Bytes wire; std::vector<int> starts; std::string name; };
struct Obj { std::string name; std::function<PDU*()> make; std::vector<Seed> seeds; };

template <class T> static PDU* mk() { return new T(); }
template <class T> static PDU* mk_raw() { PDU* p = new T(); p->inner_pdu(RawPDU("\x01\x02\x03\x04\x05\x06\x07\x08")); return p; }

static Bytes ser(PDU* p) { std::unique_ptr<PDU> h(p); return h->serialize(); }

static std::vector<Obj>& objects() {
    static std::vector<Obj> v;
    if (!v.empty()) return v;
    auto add = [&](const std::string& n, std::function<PDU*()> f) { Obj o; o.name = n; o.make = f; v.push_back(o); return &v.back(); };
#define CLS(T) add(#T, mk<T>); add(#T "/raw", mk_raw<T>);
    CLS(EthernetII) CLS(Dot3) CLS(LLC) CLS(SNAP) CLS(STP) CLS(Dot1Q) CLS(SLL) CLS(Loopback) CLS(RadioTap) CLS(PPPoE) CLS(MPLS)
    CLS(IP) CLS(IPv6) CLS(IPSecAH) CLS(IPSecESP) CLS(TCP) CLS(UDP) CLS(ICMP) CLS(ICMPv6) CLS(DNS) CLS(BootP) CLS(DHCP) CLS(DHCPv6)
    CLS(ARP) CLS(RC4EAPOL) CLS(RSNEAPOL) CLS(VXLAN) CLS(RTP) CLS(PKTAP)
    CLS(Dot11) CLS(Dot11Data) CLS(Dot11QoSData) CLS(Dot11Disassoc) CLS(Dot11AssocRequest) CLS(Dot11AssocResponse)
    CLS(Dot11ReAssocRequest) CLS(Dot11ReAssocResponse) CLS(Dot11Authentication) CLS(Dot11Deauthentication) CLS(Dot11Beacon)
    CLS(Dot11ProbeRequest) CLS(Dot11ProbeResponse) CLS(Dot11Control) CLS(Dot11RTS) CLS(Dot11PSPoll) CLS(Dot11CFEnd)
    CLS(Dot11EndCFAck) CLS(Dot11Ack) CLS(Dot11BlockAck) CLS(Dot11BlockAckRequest)
#undef CLS
    add("RawPDU", []() -> PDU* { return new RawPDU("abcdefgh"); });
    add("PPI", []() -> PDU* { static const uint8_t b[] = {0, 0, 8, 0, 1, 0, 0, 0, 0, 0, 0, 0, 0, 1, 0, 0, 0, 0, 0, 2, 0x08, 0x00,
                                                          0x45, 0, 0, 20, 0, 1, 0, 0, 64, 0, 0, 0, 10, 0, 0, 2, 10, 0, 0, 1};
                               return new PPI(b, sizeof b); });
    add("PDUCacher<EthernetII>", []() -> PDU* { return new PDUCacher<EthernetII>(EthernetII("00:00:00:00:00:02", "00:00:00:00:00:01") / IP("10.0.0.2", "10.0.0.1") / TCP(80, 1000)); });
    add("PDUCacher<IP>", []() -> PDU* { return new PDUCacher<IP>(IP("10.0.0.2", "10.0.0.1") / UDP(53, 1000) / RawPDU("xy")); });
    // class-specific states that steer the matchers into their other branches
    add("ICMP(timestamp)", []() -> PDU* { return new ICMP(ICMP::TIMESTAMP_REQUEST); });
    add("ICMP(addrmask)", []() -> PDU* { return new ICMP(ICMP::ADDRESS_MASK_REQUEST); });
    add("ICMP(dest-unreachable)", []() -> PDU* { return new ICMP(ICMP::DEST_UNREACHABLE); });
    add("ICMPv6(router-solicit)", []() -> PDU* { return new ICMPv6(ICMPv6::ROUTER_SOLICIT); });
    add("ICMPv6(neighbour-solicit)", []() -> PDU* { return new ICMPv6(ICMPv6::NEIGHBOUR_SOLICIT); });
    add("DHCPv6(relay)", []() -> PDU* { DHCPv6* d = new DHCPv6(); d->msg_type(DHCPv6::RELAY_FORWARD); return d; });
    add("DHCPv6(solicit)", []() -> PDU* { DHCPv6* d = new DHCPv6(); d->msg_type(DHCPv6::SOLICIT); d->transaction_id(0x010203); return d; });
    add("IP(broadcast)/udp/raw", []() -> PDU* { return (IP("255.255.255.255", "10.0.0.1") / UDP(67, 68) / RawPDU("abcd")).clone(); });
    add("IP(options)/tcp", []() -> PDU* { IP ip("10.0.0.2", "10.0.0.1"); ip.add_option(IP::option(IP::option_identifier(IP::NOOP, IP::CONTROL, 0)));
                                          return (ip / TCP(80, 1000)).clone(); });
    add("IPv6(ff02)/icmp6-ns", []() -> PDU* { return (IPv6("ff02::1:ff00:2", "2001:db8::1") / ICMPv6(ICMPv6::NEIGHBOUR_SOLICIT)).clone(); });
    add("Eth(bcast)/ARP", []() -> PDU* { return ARP::make_arp_request("10.0.0.2", "10.0.0.1", "00:00:00:00:00:01").clone(); });
    add("Eth/IP/UDP/DHCP", []() -> PDU* { DHCP d; d.xid(0x01020304); d.type(DHCP::DISCOVER); d.end();
                                          return (EthernetII("ff:ff:ff:ff:ff:ff", "00:00:00:00:00:01") / IP("255.255.255.255", "10.0.0.1") / UDP(67, 68) / d).clone(); });
    add("IPv6/UDP/DHCPv6", []() -> PDU* { DHCPv6 d; d.msg_type(DHCPv6::SOLICIT); d.transaction_id(0x010203);
                                          return (IPv6("ff02::1:2", "fe80::1") / UDP(547, 546) / d).clone(); });
    add("Loopback/IP/ICMP", []() -> PDU* { return (Loopback() / IP("10.0.0.2", "10.0.0.1") / ICMP()).clone(); });
    add("SLL/IP/TCP", []() -> PDU* { return (SLL() / IP("10.0.0.2", "10.0.0.1") / TCP(80, 1000)).clone(); });
    add("Dot3/LLC", []() -> PDU* { return (Dot3("00:00:00:00:00:02", "00:00:00:00:00:01") / LLC()).clone(); });
    add("RadioTap/Dot11Data/raw", []() -> PDU* { return (RadioTap() / Dot11Data("00:00:00:00:00:02", "00:00:00:00:00:01") / RawPDU("abcdefgh")).clone(); });
    add("Dot1Q/Dot1Q/IP/UDP/raw", []() -> PDU* { return (Dot1Q(5) / Dot1Q(6) / IP("10.0.0.2", "10.0.0.1") / UDP(53, 1000) / RawPDU("xy")).clone(); });
    // every functional stack: base request, seeds = mirror (+ ICMP error, + extension-header variant for IPv6)
    for (int link = 0; link < 3; ++link) for (int net = 4; net <= 6; net += 2) for (int l4 = 0; l4 < L4_COUNT; ++l4) {
        if (!stack_valid(net, l4)) continue;
      for (int nopt = 0; nopt < 3; ++nopt) {
        // requests with IP options / IPv6 extension headers: bare stacks with TCP, UDP and echo
        if (nopt && (link != LINK_NONE || !(l4 == L4_TCP || l4 == L4_UDP || l4 == L4_ICMP_ECHO || l4 == L4_ICMP6_ECHO))) continue;
        size_t ix[7] = {0, 0, 0, 0, 0, 0, (size_t)nopt};
        Req r = make_req(link, net, l4, ix);
        Obj* o = add("stack:" + stack_name(r) + (nopt ? "+hdr" + str(net_hdr(r)) : ""), [r]() -> PDU* { return build_request(r).release(); });
        Layout l = layout(r);
        Seed s; s.name = "mirror"; s.wire = build_mirror_pdu(r)->serialize();
        if (l.link_off >= 0) s.starts.push_back(0);
        if (l.vlan_off >= 0) s.starts.push_back(l.vlan_off);
        s.starts.push_back(l.net_off); s.starts.push_back(l.l4_off);
        if (l4 == L4_DNS) s.starts.push_back(l.l4_off + 8);
        o->seeds.push_back(s);
        if (net == 4) {
            std::unique_ptr<PDU> rq = build_request(r);
            Bytes w = rq->serialize();
            Seed e; e.name = "icmp-error"; e.starts = s.starts; e.starts.push_back(l.l4_off + 8);
            // a destination-unreachable from the mirrored peer quoting the request (reaches the quoted-header comparison)
            Bytes quote(w.begin() + l.net_off, w.begin() + std::min<size_t>(w.size(), l.net_off + 28));
            std::unique_ptr<PDU> top;
            if (r.link != LINK_NONE) push(top, EthernetII(r.smac, r.dmac));
            if (r.link == LINK_DOT1Q) push(top, Dot1Q(r.vid));
            push(top, IP(r.sip4, r.dip4)); { ICMP c(ICMP::DEST_UNREACHABLE); c.code(3); push(top, c); } push(top, RawPDU(quote));
            e.wire = top->serialize();
            o->seeds.push_back(e);
        } else if (nopt == 0) {
            // the mirror with two extension headers between the IPv6 header and the transport (hand-written wire image)
            Seed e; e.name = "ext-headers"; e.starts = s.starts;
            Bytes w = s.wire;
            uint8_t nh = w[l.net_off + 6];
            Bytes ext = {60, 0, 1, 4, 0, 0, 0, 0, nh, 1, 1, 12, 0, 0, 0, 0, 0, 0, 0, 0, 0, 0, 0, 0};   // hop-by-hop(8) + dest-opts(16)
            w[l.net_off + 6] = 0;
            uint16_t pl = (uint16_t)((w[l.net_off + 4] << 8 | w[l.net_off + 5]) + ext.size());
            w[l.net_off + 4] = pl >> 8; w[l.net_off + 5] = pl & 0xff;
            w.insert(w.begin() + l.l4_off, ext.begin(), ext.end());
            e.wire = w;
            e.starts.push_back(l.l4_off); e.starts.push_back(l.l4_off + 8); e.starts.push_back(l.l4_off + 24);
            o->seeds.push_back(e);
        } else {
            o->seeds.back().starts.push_back(l.net_off + 40);     // start of the first extension header of the mirror
        }
      }
    }
    // replies for the special objects
    auto find = [&](const std::string& n) -> Obj* { for (auto& o : v) if (o.name == n) return &o; return 0; };
    { Seed s; s.name = "arp-reply"; s.starts = {0, 14};
      s.wire = ARP::make_arp_reply("10.0.0.1", "10.0.0.2", "00:00:00:00:00:01", "00:00:00:00:00:02").serialize(); find("Eth(bcast)/ARP")->seeds.push_back(s);
      Seed t = s; t.wire.erase(t.wire.begin(), t.wire.begin() + 14); t.starts = {0}; find("ARP")->seeds.push_back(t); find("ARP/raw")->seeds.push_back(t); }
    { DHCP d; d.xid(0x01020304); d.opcode(2); d.type(DHCP::OFFER); d.end();
      Seed s; s.name = "dhcp-offer"; s.starts = {0, 14, 34, 42};
      s.wire = (EthernetII("00:00:00:00:00:01", "00:00:00:00:00:02") / IP("10.0.0.1", "10.0.0.2") / UDP(68, 67) / d).serialize();
      find("Eth/IP/UDP/DHCP")->seeds.push_back(s);
      Seed t; t.name = "dhcp-offer"; t.starts = {0}; t.wire = d.serialize(); find("DHCP")->seeds.push_back(t); find("BootP")->seeds.push_back(t); }
    { DHCPv6 d; d.msg_type(DHCPv6::ADVERTISE); d.transaction_id(0x010203);
      Seed s; s.name = "dhcpv6-advertise"; s.starts = {0, 40, 48};
      s.wire = (IPv6("fe80::1", "fe80::2") / UDP(546, 547) / d).serialize(); find("IPv6/UDP/DHCPv6")->seeds.push_back(s);
      Seed t; t.name = "dhcpv6-advertise"; t.starts = {0}; t.wire = d.serialize(); find("DHCPv6(solicit)")->seeds.push_back(t); find("DHCPv6(relay)")->seeds.push_back(t); }
    { Seed s; s.name = "icmp6-na"; s.starts = {0, 40};
      s.wire = (IPv6("2001:db8::1", "2001:db8::2") / ICMPv6(ICMPv6::NEIGHBOUR_ADVERT)).serialize(); find("IPv6(ff02)/icmp6-ns")->seeds.push_back(s);
      Seed t = s; t.wire.erase(t.wire.begin(), t.wire.begin() + 40); t.starts = {0}; find("ICMPv6(neighbour-solicit)")->seeds.push_back(t);
      Seed u; u.name = "icmp6-ra"; u.starts = {0}; u.wire = ICMPv6(ICMPv6::ROUTER_ADVERT).serialize(); find("ICMPv6(router-solicit)")->seeds.push_back(u); }
    { Seed s; s.name = "ip-reply"; s.starts = {0, 20};
      s.wire = (IP("10.0.0.1", "10.0.0.2") / UDP(68, 67) / RawPDU("wxyz")).serialize(); find("IP(broadcast)/udp/raw")->seeds.push_back(s);
      Seed t; t.name = "ip-reply"; t.starts = {0, 20}; t.wire = (IP("10.0.0.1", "10.0.0.2") / TCP(1000, 80)).serialize(); find("IP(options)/tcp")->seeds.push_back(t);
      find("PDUCacher<IP>")->seeds.push_back(t);
      Seed l; l.name = "loopback-reply"; l.starts = {0, 4, 24}; l.wire = (IP("10.0.0.1", "10.0.0.2") / ICMP(ICMP::ECHO_REPLY)).serialize();
      l.wire.insert(l.wire.begin(), 4, 0); l.wire[0] = 2; find("Loopback/IP/ICMP")->seeds.push_back(l); find("Loopback")->seeds.push_back(l); find("Loopback/raw")->seeds.push_back(l);
      Seed e; e.name = "eth-reply"; e.starts = {0, 14, 34};
      e.wire = (EthernetII("00:00:00:00:00:01", "00:00:00:00:00:02") / IP("10.0.0.1", "10.0.0.2") / TCP(1000, 80)).serialize(); find("PDUCacher<EthernetII>")->seeds.push_back(e);
      Seed q; q.name = "qinq-reply"; q.starts = {0, 4, 8, 28};
      q.wire = (Dot1Q(5) / Dot1Q(6) / IP("10.0.0.1", "10.0.0.2") / UDP(1000, 53) / RawPDU("zz")).serialize(); find("Dot1Q/Dot1Q/IP/UDP/raw")->seeds.push_back(q); }
    // every object additionally gets its own wire image as a seed (right header layout for its class, passes the size guards)
    for (auto& o : v) {
        Seed s; s.name = "self"; s.starts = {0};
        try { std::unique_ptr<PDU> p(o.make()); s.wire = p->serialize(); } catch (const exception_base&) { s.wire = Bytes(32, 0); }
        o.seeds.push_back(s);
    }
    return v;
}

static const uint8_t quick_vals[] = {0x00, 0x01, 0x02, 0x03, 0x04, 0x05, 0x06, 0x08, 0x0b, 0x0c, 0x0e, 0x0f, 0x11, 0x12, 0x2b, 0x2c, 0x32, 0x33, 0x3a,
                                     0x3c, 0x40, 0x45, 0x46, 0x4f, 0x50, 0x60, 0x7f, 0x80, 0x81, 0x86, 0x87, 0x88, 0xf0, 0xfe, 0xff};

static int safe_eval(const Obj& o, const PDU& pdu, const Bytes& content, const std::string& kase, bool verbose) {
    Block b(content.data(), content.size());
    Outcome out = call_match(pdu, b.p, (uint32_t)b.n, o.name);
    R.count("evaluations"); R.count("safety_evaluations");
    R.dist("distinct_outcomes", fnv("safe" + str((int)out)));
    if (out == O_TRUE) R.dist("safety_objects_with_a_match", fnv(o.name));
    if (verbose) printf("object %s, %zu-byte buffer %s -> %s\n", o.name.c_str(), content.size(), hex(content).c_str(),
                        out == O_TRUE ? "true" : out == O_FALSE ? "false" : out == O_TINS_EXC ? "libtins exception" : g_bad.c_str());
    if (out == O_BAD) {
        R.violation(g_bad, "object " + o.name + ", buffer of " + str(content.size()) + " bytes: " + hex(content) + " " + Mon::first_detail, kase);
        return 1;
    }
    return 0;
}

static Bytes seed_cut(const Seed& s, int len) {
    Bytes c(s.wire.begin(), s.wire.begin() + std::min<size_t>(s.wire.size(), len));
    c.resize(len, 0);     // beyond the seed: zero padding
    return c;
}

// all cases of one (object, length); `only` restricts to one case (replay)
static int run_safe(const Obj& o, const PDU& pdu, int len, bool thorough, const std::map<std::string, std::string>* only, bool verbose) {
    int bad = 0;
    std::string base = "part=safe obj=" + o.name + " len=" + str(len);
    std::string kind = only ? only->at("kind") : "";
    if (!only || kind == "zeros") bad += safe_eval(o, pdu, Bytes(len, 0), base + " kind=zeros", verbose);
    if (!only || kind == "ones") bad += safe_eval(o, pdu, Bytes(len, 0xff), base + " kind=ones", verbose);
    int window = thorough ? 24 : 16;
    for (size_t si = 0; si < o.seeds.size(); ++si) {
        const Seed& s = o.seeds[si];
        if (only && (kind != "seed" || (size_t)num(only->at("seed")) != si)) continue;
        Bytes c = seed_cut(s, len);
        std::string sb = base + " kind=seed seed=" + str(si);
        if (!only || num(only->at("pos")) < 0) bad += safe_eval(o, pdu, c, sb + " pos=-1 val=0", verbose);
        std::set<int> pos;
        for (int st : s.starts) for (int k = 0; k < window; ++k) if (st + k < len) pos.insert(st + k);
        for (int p : pos) {
            if (only && num(only->at("pos")) != p) continue;
            uint8_t orig = c[p];
            int nv = thorough ? 256 : (int)sizeof quick_vals;
            for (int vi = 0; vi < nv; ++vi) {
                uint8_t v = thorough ? (uint8_t)vi : quick_vals[vi];
                if (v == orig) continue;
                if (only && num(only->at("val")) != v) continue;
                c[p] = v;
                bad += safe_eval(o, pdu, c, sb + " pos=" + str(p) + " val=" + str((int)v), verbose);
            }
            c[p] = orig;
        }
    }
    return bad;
}

// ------------------------------------------------------------------ driver
static const int NJ_QUICK = 32, NJ_THOROUGH = 64;

static void run_job(int job) {
    install_segv_guard();
    int nj = A.thorough() ? NJ_THOROUGH : NJ_QUICK;
    uint64_t unit = 0, mine = 0;
    bool cut = false;
    // ---- call-history part: before any other matcher call of this process
    {
        uint64_t idx = mine++;
        int rot = (job * 11) % (int)hist_probes().size();
        if (!(idx < A.skip || skipped(idx))) {
            set_case(idx, "hist", "part=hist rot=" + str(rot));
            hist_pass(rot, false);
            R.count("history_passes");
        }
    }
    // ---- minimal-mirror part (small; job 0 only so that the class obligations are decided in one place)
    if (job == 0) {
        uint64_t idx = mine++;
        if (!(idx < A.skip || skipped(idx))) {
            set_case(idx, "min", "part=min path=all var=all");
            min_part(false);
        }
    }
    // ---- safety part (small), one unit = (object, length)
    std::vector<Obj>& objs = objects();
    for (size_t oi = 0; oi < objs.size() && !cut; ++oi) {
        std::unique_ptr<PDU> pdu;
        for (int len = 0; len <= 128; ++len, ++unit) {
            if ((int)(unit % nj) != job) continue;
            uint64_t idx = mine++;
            if (idx < A.skip || skipped(idx)) continue;
            if (deadline_reached()) { cut = true; break; }
            if (!pdu) {
                pdu.reset(objs[oi].make());
                try { pdu->serialize(); } catch (const exception_base&) {}
            }
            set_case(idx, objs[oi].name + "::matches_response", "part=safe obj=" + objs[oi].name + " len=" + str(len) + " kind=all");
            run_safe(objs[oi], *pdu, len, A.thorough(), 0, false);
            R.count("safety_object_length_pairs");
        }
        if (job == 0) R.count("safety_objects");
    }
    // ---- functional part, one unit = one request
    if (!cut)
        for_each_request(A.thorough(), [&](const Req& r) {
            uint64_t u = unit++;
            if (cut || (int)(u % nj) != job) return;
            uint64_t idx = mine++;
            if (idx < A.skip || skipped(idx)) return;
            if (deadline_reached()) { cut = true; return; }
            set_case(idx, "func:" + stack_name(r), "part=func " + req_str(r) + " test=all");
            run_request(r, 0, false);
            R.count("requests");
            R.dist("distinct_stacks", fnv(stack_name(r)));
        });
    if (cut) R.flags["exhaustive"] = false;
    if (job == 0) {
        size_t ix[7] = {0, 0, 0, 0, 0, 0, 0};
        Req r = make_req(LINK_DOT1Q, 4, L4_DNS, ix);
        R.sample("{\"request\":" + jstr(req_str(r)) + ",\"request_wire\":" + jstr(hex(build_request(r)->serialize())) + ",\"mirror_wire\":" +
                 jstr(hex(build_mirror_pdu(r)->serialize())) + ",\"negatives\":\"each byte of link.reply-dst, link.reply-src, vlan.id, ip.reply-src, "
                 "ip.reply-dst, udp.reply-sport, udp.reply-dport, dns.id x 255 other values\"}");
        std::string tab = "[";
        for (auto& row : EXEMPT_TABLE) tab += std::string(tab.size() > 1 ? "," : "") + "{\"layer\":" + jstr(row.layer) + ",\"request_destination_class\":" + jstr(row.dst_class) +
                                              ",\"any_reply_source_accepted\":" + (row.reply_src_any ? "true" : "false") + ",\"why\":" + jstr(row.why) + "}";
        tab += ",{\"layer\":\"ip\",\"request\":\"source 0.0.0.0 to 255.255.255.255\",\"any_reply_destination_accepted\":true,\"why\":\"BOOTP/DHCP client without an address\"}]";
        R.info["address_class_reference_table"] = tab;
        R.sample("{\"safety_case\":\"part=safe obj=RadioTap len=1 kind=zeros\",\"meaning\":\"RadioTap().matches_response(malloc(1)={00}, 1)\"}");
    }
}

static int replay(const std::string& kase) {
    install_segv_guard();
    auto kv = kvparse(kase);
    // object names contain no blanks, but '=' may not appear either: fine for all names above
    int bad = 0;
    if (kv["part"] == "func") {
        Req r = req_parse(kv);
        printf("stack %s\n", stack_name(r).c_str());
        if (kv["test"] == "all") bad = run_request(r, 0, true);
        else bad = run_request(r, &kv, true);
    } else if (kv["part"] == "safe") {
        Obj* o = 0;
        for (auto& x : objects()) if (x.name == kv["obj"]) o = &x;
        if (!o) { printf("no such object\n"); return 2; }
        std::unique_ptr<PDU> pdu(o->make());
        try { pdu->serialize(); } catch (const exception_base&) {}
        bool all = kv["kind"] == "all";
        // try both tiers' substitution sets when replaying a whole (object, length) unit
        bad = run_safe(*o, *pdu, num(kv["len"]), all ? false : true, all ? 0 : &kv, !all);
    } else if (kv["part"] == "min") {
        if (kv["path"] == "all") bad = min_part(true);
        else {
            bool found = false;
            for (auto& p : min_paths()) if (path_name(p) == kv["path"]) { found = true; bad = run_min_case(p, kv["var"] == "all" ? "" : kv["var"], true); }
            if (!found) { printf("no such path\n"); return 2; }
        }
    } else if (kv["part"] == "hist") {
        bad = hist_pass(num(kv["rot"]), true);
    } else { printf("bad case string\n"); return 2; }
    for (auto& v : R.violations) printf("  %s  (x%llu)\n", v.first.c_str(), (unsigned long long)v.second.count);
    if (bad) { printf("violation reproduced\n"); return 1; }
    printf("case replayed, no violation\n");
    return 0;
}

int main(int argc, char** argv) { return run_main(argc, argv, NJ_QUICK, NJ_THOROUGH, run_job, replay); }
