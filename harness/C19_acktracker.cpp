// C19 — ACK/SACK tracker agrees with a set-of-acknowledged-bytes model.
// BFS to fixpoint: conforming receiver model x real AckTracker (standalone and inside Flow),
// driven through real TCP PDUs carrying ack_seq and a SACK option.
#include "explore.hpp"
#include <tins/tins.h>
#include <tins/tcp_ip/ack_tracker.h>
#include <tins/tcp_ip/flow.h>

using namespace Tins;
using namespace mc;

static int N = 5;            // unit segments
static int SEG = 3;          // bytes per segment (3: every wrap offset inside a segment is hit; 1: one-byte holes right at the cumulative ACK)
static int MAXBLK = 3;       // SACK blocks per ACK (TCP allows <= 4)

// An event: segment `seg` arrives at the receiver; the receiver emits an ACK whose SACK option holds the
// subset `blocks` (bitmask over its current out-of-order blocks, in ascending order); `deliver` tells
// whether that ACK reaches the tracker.
struct Ev { int seg; unsigned blocks; bool deliver; };
static std::string ev_str(const Ev& e) { return str(e.seg) + "/" + str(e.blocks) + (e.deliver ? "d" : "l"); }

struct Model {
    uint32_t have = 0;     // receiver: segments held
    int mack = 0;          // highest cumulative ACK (in bytes, relative) delivered to the tracker
    uint64_t sacked = 0;   // byte positions reported in delivered SACK blocks and still above mack
};
static int cum_ack(uint32_t have) { int k = 0; while (k < N && (have >> k & 1)) ++k; return k * SEG; }
// out-of-order blocks (byte ranges [l,r)) above the cumulative ack
static std::vector<std::pair<int, int> > ooo_blocks(uint32_t have) {
    std::vector<std::pair<int, int> > b;
    int k = cum_ack(have) / SEG;
    for (int i = k; i < N;) {
        if (have >> i & 1) { int j = i; while (j < N && (have >> j & 1)) ++j; b.push_back(std::make_pair(i * SEG, j * SEG)); i = j; }
        else ++i;
    }
    return b;
}

struct S { TCPIP::AckTracker t; Model m; };
struct SF { TCPIP::Flow f; Model m; };

static std::string canon_tracker(const TCPIP::AckTracker& t, uint32_t isn) {
    std::vector<std::pair<uint32_t, uint32_t> > v;
    for (auto it = t.acked_intervals().begin(); it != t.acked_intervals().end(); ++it) {
        uint32_t lo = it->lower(), hi = it->upper();
        if (it->bounds() == boost::icl::interval_bounds::left_open() || it->bounds() == boost::icl::interval_bounds::open()) lo++;
        if (it->bounds() == boost::icl::interval_bounds::right_open() || it->bounds() == boost::icl::interval_bounds::open()) hi--;
        v.push_back(std::make_pair(lo - isn, hi - isn));
    }
    std::sort(v.begin(), v.end());
    std::string s = str(t.ack_number() - isn) + "|";
    for (auto& p : v) s += str(p.first) + "-" + str(p.second) + ";";
    return s;
}

static TCP make_ack(uint32_t isn, const Model& m, const Ev& e, const std::vector<std::pair<int, int> >& blocks) {
    TCP tcp(1025, 80);
    tcp.flags(TCP::ACK);
    tcp.ack_seq(isn + (uint32_t)cum_ack(m.have));
    std::vector<uint32_t> edges;
    for (size_t i = 0; i < blocks.size(); ++i)
        if (e.blocks >> i & 1) { edges.push_back(isn + (uint32_t)blocks[i].first); edges.push_back(isn + (uint32_t)blocks[i].second); }
    if (!edges.empty()) tcp.sack(edges);
    return tcp;
}

static bool ev_enabled(const Model& m, const Ev& e) {
    uint32_t have2 = m.have | (1u << e.seg);
    auto b = ooo_blocks(have2);
    if (e.blocks >> b.size()) return false;                       // refers to a block that does not exist
    if (__builtin_popcount(e.blocks) > MAXBLK) return false;
    if (!e.deliver && e.blocks != 0) return false;               // lost ACKs: content irrelevant, one representative
    return true;
}

// apply to the model; returns the TCP packet (for delivered ACKs)
static void model_step(uint32_t isn, Model& m, const Ev& e, TCP* out) {
    m.have |= 1u << e.seg;
    auto b = ooo_blocks(m.have);
    if (out) *out = make_ack(isn, m, e, b);
    if (e.deliver) {
        int ca = cum_ack(m.have);
        if (ca > m.mack) m.mack = ca;
        for (size_t i = 0; i < b.size(); ++i)
            if (e.blocks >> i & 1) for (int p = b[i].first; p < b[i].second; ++p) m.sacked |= 1ull << p;
        m.sacked &= ~((1ull << m.mack) - 1);
    }
}

static std::string check(uint32_t isn, const TCPIP::AckTracker& t, const Model& m, const char* lvl) {
    std::string P = std::string("ack:") + lvl;
    if (t.ack_number() != isn + (uint32_t)m.mack)
        return P + ":cumulative-ack|ack_number()-ISN=" + str((int32_t)(t.ack_number() - isn)) + " model " + str(m.mack);
    // interval set as a set of bytes
    uint64_t got = 0;
    for (auto it = t.acked_intervals().begin(); it != t.acked_intervals().end(); ++it) {
        uint32_t lo = it->lower(), hi = it->upper();
        if (it->bounds() == boost::icl::interval_bounds::left_open() || it->bounds() == boost::icl::interval_bounds::open()) lo++;
        if (it->bounds() == boost::icl::interval_bounds::right_open() || it->bounds() == boost::icl::interval_bounds::open()) hi--;
        // intervals never wrap inside the set; walk bytes (short)
        if (hi - lo > 200) return P + ":interval-huge|interval of " + str(hi - lo) + " bytes";
        for (uint32_t b = lo;; ++b) {
            uint32_t rel = b - isn;
            if (rel >= 64) return P + ":interval-outside-stream|byte rel " + str((int32_t)rel);
            got |= 1ull << rel;
            if (b == hi) break;
        }
    }
    if (got != m.sacked) {
        char buf[96]; snprintf(buf, sizeof buf, "tracker bytes %llx model %llx (mack %d)", (unsigned long long)got, (unsigned long long)m.sacked, m.mack);
        return P + (got & ~m.sacked ? ":intervals-extra|" : ":intervals-missing|") + buf;
    }
    // every query
    int total = N * SEG;
    for (int s = -3; s <= total + 3; ++s)
        for (int len = 0; len <= total + 4; ++len) {
            bool want = true;
            for (int p = s; p < s + len; ++p) {
                bool a = p < m.mack || (p >= 0 && p < 64 && (m.sacked >> p & 1));
                if (!a) { want = false; break; }
            }
            bool gotq = t.is_segment_acked(isn + (uint32_t)s, (uint32_t)len);
            if (gotq != want)
                return P + (gotq ? ":query-false-positive|" : ":query-false-negative|") + "is_segment_acked(ISN" + (s < 0 ? "" : "+") + str(s) + "," +
                       str(len) + ")=" + str(gotq) + " model " + str(want) + " mack=" + str(m.mack);
            R.count("queries");
        }
    return "";
}

static std::vector<Ev> alphabet() {
    std::vector<Ev> a;
    int maxb = (N + 1) / 2;
    for (int d = 1; d >= 0; --d)
        for (unsigned bl = 0; bl < (1u << maxb); ++bl)
            for (int s = 0; s < N; ++s) a.push_back(Ev{s, bl, d == 1});
    return a;
}

static std::vector<uint32_t> isns() {
    std::vector<uint32_t> v = {0u, 1u, 0x7fffffffu, 0x80000000u, 0x7ffffff8u, 12345u};
    for (int j = 0; j <= N * SEG + 3; ++j) v.push_back(0u - (uint32_t)j);
    return v;
}

static void run_cfg(bool flow, uint32_t isn, const std::string* rp = 0, std::string* rerr = 0) {
    std::string ctx = std::string("level=") + (flow ? "flow" : "tracker") + " N=" + str(N) + " seg=" + str(SEG) + " isn=" + str(isn);
    bool ok = true;
    if (!flow) {
        Explorer<S, Ev> ex;
        ex.alphabet = alphabet(); ex.context = ctx; ex.op_str = ev_str;
        ex.init = [isn]() { return S{TCPIP::AckTracker(isn, true), Model()}; };
        ex.canon = [isn](const S& s) { return canon_tracker(s.t, isn) + "|" + str(s.m.have) + "|" + str(s.m.mack) + "|" + str(s.m.sacked); };
        ex.enabled = [](const S& s, const Ev& e) { return ev_enabled(s.m, e); };
        ex.step = [isn](S& s, const Ev& e) -> std::string {
            TCP tcp;
            model_step(isn, s.m, e, &tcp);
            if (e.deliver) {
                // through the wire: serialize and re-parse so that the SACK option decoder is on the path
                IP pkt = IP("10.0.0.1", "10.0.0.2") / tcp;
                auto bytes = pkt.serialize();
                IP parsed(&bytes[0], (uint32_t)bytes.size());
                for (int i = 0; i < N; ++i) {
                    TCPIP::AckTracker c = s.t;                       // pre-state
                    (void)c.is_segment_acked(isn + (uint32_t)(i * SEG), (uint32_t)SEG);
                    c.process_packet(parsed);
                    bool want = true;
                    for (int p = i * SEG; p < (i + 1) * SEG; ++p) if (!(p < s.m.mack || (s.m.sacked >> p & 1))) { want = false; break; }
                    if (c.is_segment_acked(isn + (uint32_t)(i * SEG), (uint32_t)SEG) != want)
                        return "ack:tracker:repeated-query-stale|is_segment_acked(segment " + str(i) + ") asked before and after the packet with nothing in between answers " + str(!want) + ", model " + str(want);
                    R.count("repeated_queries");
                }
                s.t.process_packet(parsed);
            }
            return check(isn, s.t, s.m, "tracker");
        };
        ex.nontrivial = [](const S& s) { return s.m.sacked != 0; };
        ex.observe = [isn](const S& s) { return canon_tracker(s.t, isn); };
        if (rp) *rerr = ex.replay(*rp); else ok = ex.run();
    } else {
        Explorer<SF, Ev> ex;
        ex.alphabet = alphabet(); ex.context = ctx; ex.op_str = ev_str;
        ex.init = [isn]() {
            SF s{TCPIP::Flow(IPv4Address("10.0.0.2"), 80, 999), Model()};
            s.f.enable_ack_tracking();
            IP synack = IP("10.0.0.2", "10.0.0.1") / TCP(80, 1025);
            synack.rfind_pdu<TCP>().flags(TCP::SYN | TCP::ACK); synack.rfind_pdu<TCP>().seq(998); synack.rfind_pdu<TCP>().ack_seq(isn);
            s.f.process_packet(synack);
            IP ack = IP("10.0.0.2", "10.0.0.1") / TCP(80, 1025);
            ack.rfind_pdu<TCP>().flags(TCP::ACK); ack.rfind_pdu<TCP>().seq(999); ack.rfind_pdu<TCP>().ack_seq(isn);
            s.f.process_packet(ack);
            return s;
        };
        ex.canon = [isn](const SF& s) { return canon_tracker(s.f.ack_tracker(), isn) + "|" + str(s.m.have) + "|" + str(s.m.mack) + "|" + str(s.m.sacked); };
        ex.enabled = [](const SF& s, const Ev& e) { return ev_enabled(s.m, e); };
        ex.step = [isn](SF& s, const Ev& e) -> std::string {
            TCP tcp;
            model_step(isn, s.m, e, &tcp);
            if (e.deliver) {
                tcp.seq(999);
                IP pkt = IP("10.0.0.2", "10.0.0.1") / tcp;
                s.f.process_packet(pkt);
            }
            return check(isn, s.f.ack_tracker(), s.m, "flow");
        };
        ex.nontrivial = [](const SF& s) { return s.m.sacked != 0; };
        if (rp) *rerr = ex.replay(*rp); else ok = ex.run();
    }
    if (rp) return;
    if (ok) R.count("configurations_to_fixpoint");
    R.count("configurations");
}

int main(int argc, char** argv) {
    for (int i = 1; i + 1 < argc; ++i) if (std::string(argv[i]) == "--tier" && std::string(argv[i + 1]) == "thorough") { N = 7; MAXBLK = 4; }
    if (getenv("C19_N")) N = atoi(getenv("C19_N"));
    // jobs: [0, 2*n3) three-byte segments (tracker, then flow); [2*n3, 2*n3 + 2*n1) one-byte segments
    int n3q = 6 + 5 * 3 + 4, n3t = 6 + 7 * 3 + 4, n1q = 6 + 5 + 4, n1t = 6 + 7 + 4;
    // last 4 jobs: the WIDE configuration - one-byte segments, N = 8 (thorough 9) so that four disjoint out-of-order blocks exist at once and
    // an ACK can carry a full SACK option of 4 blocks (with N <= 7 at most three blocks ever exist), two ISNs (plain, wrap inside) x tracker/flow
    int nq = 2 * n3q + 2 * n1q + 4, nt = 2 * n3t + 2 * n1t + 4;
    return run_main(argc, argv, nq, nt,
        [=](int job) {
            int n3 = A.thorough() ? n3t : n3q;
            int nbase = A.thorough() ? nt - 4 : nq - 4;
            if (job >= nbase) {
                int w = job - nbase;
                SEG = 1; N = A.thorough() ? 9 : 8; MAXBLK = 4;
                run_cfg(w >= 2, (w & 1) ? 0u - 4u : 12345u);
                R.maxv("wide_configuration_N", N);
                return;
            }
            if (job >= 2 * n3) { SEG = 1; job -= 2 * n3; } else SEG = 3;
            auto v = isns();
            bool flow = job >= (int)v.size();
            run_cfg(flow, v[job % v.size()]);
            R.maxv("completed_bound_N", N);
        },
        [](const std::string& kase) -> int {
            auto kv = parse_kv(kase);
            N = atoi(kv["N"].c_str());
            if (kv.count("seg")) SEG = atoi(kv["seg"].c_str());
            if (N > 5) MAXBLK = 4;
            if (N > 7 && !kv.count("seg")) SEG = 1;
            std::string err, ops = kv["ops"];
            run_cfg(kv["level"] == "flow", (uint32_t)strtoul(kv["isn"].c_str(), 0, 10), &ops, &err);
            if (!err.empty()) { printf("violation reproduced: %s\n", err.c_str()); return 1; }
            printf("history replayed, all invariants hold\n");
            return 0;
        });
}
