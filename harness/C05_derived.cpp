// C05: fields libtins derives (lengths, header lengths / offsets, next-protocol tags, minimum-frame padding, checksums, FCS)
// are correct on the wire for independent decoders.
//   family G : every grammar packet (hand-written stacks + generated (class, setter, sample) variants), also with a 5 / 6 byte payload appended
//   family X : 46 checksum-carrying stack shapes x every payload size 0..140 (thorough 0..1600) + large sizes + the 65535-byte limit;
//              ladders: every IPv6 extension header data size 0..24, TCP / IP option sizes 0..38, AH ICV sizes, RFC 4884 original datagram
//              sizes x {extension} x {length octet}, wrong preset tags in front of every known child, Ethernet payload sizes 0..64
//   family S : for every stack shape, one 16-bit word (payload word with even and odd payload length; IPv4 id; a word inside the
//              ICMP extension object; thorough: long payloads too) swept through ALL 65536 values (--reduced in the quick tier: every
//              251st value + boundaries + the values that make the checksum field 0x0000 / 0xffff)
//   family V : fields the harness sets (ports, VLAN id, session id, ICMP type, TTL, address octet, MPLS label) swept through their domain,
//              libpcap programs compiled per value
//   family P : the wire seeds of the corpus parsed by their entry point and re-serialized
//   family R : histories of serializations of ONE object (first / second serialize(), clone, Packet copy, wrapped into and detached from
//              an enclosing packet, after address / payload / child-class setters), incl. outermost IP without source address whose
//              source is looked up (route to 127.0.0.1 via lo) by IP::prepare_for_serialize() at serialization time
// Oracles: (1) mc/ref/dissect.hpp (own RFC 1071 sum, pseudo headers, bitwise CRC-32, protocol tables) compared layer by layer with
// the object that was serialized; (2) libpcap filter predicates over the fields that were set: must match, and must not match a
// neighbouring value.
#include "entry.hpp"
#include "sermon.hpp"
#include "ref/dissect.hpp"

using namespace mc;
using namespace Tins;
using ref::Proto;

static bool g_reduced = false;
static std::string g_only;      // replay: only this case
static uint64_t g_idx = 0;

// =============================================================================== object side
struct OL { PDU* p; PDU::PDUType t; size_t off, hs, ts, sz, rend; Proto want; };

static Proto want_of(const PDU& p) {
    switch (p.pdu_type()) {
        case PDU::ETHERNET_II: return ref::P_ETH;
        case PDU::DOT3: return ref::P_DOT3;
        case PDU::DOT1Q: return ref::P_VLAN;
        case PDU::LLC: return ref::P_LLC;
        case PDU::SNAP: return ref::P_SNAP;
        case PDU::STP: return ref::P_STP;
        case PDU::SLL: return ref::P_SLL;
        case PDU::LOOPBACK: return ref::P_NULL;
        case PDU::RADIOTAP: return ref::P_RADIOTAP;
        case PDU::PPPOE: return static_cast<const PPPoE&>(p).code() == 0 ? ref::P_PPPOES : ref::P_PPPOED;
        case PDU::MPLS: return ref::P_MPLS;
        case PDU::ARP: return ref::P_ARP;
        case PDU::EAPOL: case PDU::RC4EAPOL: case PDU::RSNEAPOL: return ref::P_EAPOL;
        case PDU::IP: return ref::P_IP4;
        case PDU::IPv6: return ref::P_IP6;
        case PDU::IPSEC_AH: return ref::P_AH;
        case PDU::IPSEC_ESP: return ref::P_ESP;
        case PDU::TCP: return ref::P_TCP;
        case PDU::UDP: return ref::P_UDP;
        case PDU::ICMP: return ref::P_ICMP;
        case PDU::ICMPv6: return ref::P_ICMP6;
        default: return p.matches_flag(PDU::DOT11) ? ref::P_DOT11 : ref::P_NONE;
    }
}
static bool same_proto(Proto want, Proto got) {
    if (want == got) return true;
    if ((want == ref::P_ETH || want == ref::P_DOT3) && (got == ref::P_ETH || got == ref::P_DOT3)) return true;    // decided per object below
    if ((want == ref::P_LLC || want == ref::P_SNAP) && (got == ref::P_LLC || got == ref::P_SNAP)) return true;    // one reader for 802.2, it tells SNAP by aa-aa-03
    return false;
}
static bool in_ether_space(PDU::PDUType t) {
    return t == PDU::IP || t == PDU::IPv6 || t == PDU::ARP || t == PDU::DOT1Q || t == PDU::PPPOE || t == PDU::MPLS || t == PDU::RSNEAPOL || t == PDU::RC4EAPOL;
}
static bool in_ip_space(PDU::PDUType t) {
    return t == PDU::IP || t == PDU::IPv6 || t == PDU::TCP || t == PDU::UDP || t == PDU::ICMP || t == PDU::ICMPv6 || t == PDU::IPSEC_AH || t == PDU::IPSEC_ESP;
}
// does libtins know a tag (or a structural rule) by which the parent announces this child?
static bool known_adjacency(const OL& par, const OL& ch) {
    switch (par.t) {
        case PDU::ETHERNET_II: case PDU::DOT1Q: case PDU::SNAP: case PDU::SLL: return in_ether_space(ch.t);
        case PDU::IP: case PDU::IPv6: case PDU::IPSEC_AH: return in_ip_space(ch.t);
        case PDU::LOOPBACK: return ch.t == PDU::IP || ch.t == PDU::IPv6 || ch.t == PDU::LLC;
        case PDU::LLC: return ch.t == PDU::STP;
        case PDU::MPLS: return par.p->parent_pdu() && (ch.t == PDU::IP || ch.t == PDU::IPv6);      // S=0 in front of another label is the user's default, not derived
        case PDU::DOT3: return ch.t == PDU::LLC || ch.t == PDU::SNAP;
        case PDU::RADIOTAP: return ch.p->matches_flag(PDU::DOT11);
        case PDU::DOT11_DATA: case PDU::DOT11_QOS_DATA: return ch.t == PDU::SNAP && !static_cast<const Dot11&>(*par.p).wep();
        default: return false;
    }
}

static std::vector<OL> layers_of(PDU& root, size_t total) {
    std::vector<OL> v;
    size_t off = 0, rend = total;
    for (PDU* p = &root; p; p = p->inner_pdu()) {
        OL o; o.p = p; o.t = p->pdu_type(); o.off = off; o.hs = p->header_size(); o.ts = p->trailer_size(); o.sz = p->size(); o.rend = rend; o.want = want_of(*p);
        v.push_back(o);
        off += o.hs; rend -= o.ts <= rend ? o.ts : rend;
    }
    return v;
}

// =============================================================================== libpcap side
struct Pred { std::string expr, kind; bool expect; };
struct Plan { int dlt; std::vector<Pred> preds; std::vector<bpf_program*> progs; Plan() : dlt(-1) {} };

static std::map<int, pcap_t*> g_dead;
static std::map<std::string, bpf_program*> g_progs;
static bpf_program* compiled(int dlt, const std::string& expr) {
    std::string key = std::to_string(dlt) + "|" + expr;
    auto it = g_progs.find(key);
    if (it != g_progs.end()) return it->second;
    pcap_t*& pc = g_dead[dlt];
    if (!pc) pc = pcap_open_dead(dlt, 65535);
    bpf_program* bp = new bpf_program;
    if (pcap_compile(pc, bp, expr.c_str(), 1, PCAP_NETMASK_UNKNOWN) != 0) {
        R.violation("harness:pcap-compile", std::string(pcap_geterr(pc)) + " in: " + expr, "expr=" + expr);
        delete bp; bp = 0;
    }
    R.count("pcap_programs_compiled");
    g_progs[key] = bp;
    return bp;
}

static std::string v4s(IPv4Address a) { return a.to_string(); }
static std::string v4flip(IPv4Address a) { uint32_t v = (uint32_t)a; uint8_t b[4]; memcpy(b, &v, 4); b[3] ^= 1; memcpy(&v, b, 4); return IPv4Address(v).to_string(); }
static std::string v6flip(const IPv6Address& a) { IPv6Address c = a; *(c.begin() + 15) ^= 1; return c.to_string(); }
static std::string hwflip(const HWAddress<6>& a) { HWAddress<6> c = a; *(c.begin() + 5) ^= 1; return c.to_string(); }
static std::string n2s(unsigned long long v) { return std::to_string(v); }

static void build_plan(const std::vector<OL>& o, Plan& pl) {
    pl.dlt = -1; pl.preds.clear(); pl.progs.clear();
    if (o.empty()) return;
    switch (o[0].t) {
        case PDU::ETHERNET_II: case PDU::DOT3: pl.dlt = DLT_EN10MB; break;
        case PDU::SLL: pl.dlt = DLT_LINUX_SLL; break;
        case PDU::LOOPBACK: pl.dlt = DLT_NULL; break;
        case PDU::RADIOTAP: pl.dlt = DLT_IEEE802_11_RADIO; break;
        case PDU::IP: if (static_cast<const IP&>(*o[0].p).version() == 4) pl.dlt = DLT_RAW; break;        // DLT_RAW readers tell v4 / v6 by the version nibble (a user field)
        case PDU::IPv6: if (static_cast<const IPv6&>(*o[0].p).version() == 6) pl.dlt = DLT_RAW; break;
        default: if (o[0].p->matches_flag(PDU::DOT11)) pl.dlt = DLT_IEEE802_11; break;
    }
    if (pl.dlt < 0) return;
    std::string pre;
    auto add = [&](const std::string& e, bool expect, const char* kind) { Pred p; p.expr = e; p.kind = kind; p.expect = expect; pl.preds.push_back(p); };
    bool reach = true;            // libpcap can still address the next layer
    for (size_t i = 0; i < o.size() && reach; ++i) {
        const OL& L = o[i];
        const OL* ch = i + 1 < o.size() ? &o[i + 1] : 0;
        const OL* par = i ? &o[i - 1] : 0;
        switch (L.t) {
        case PDU::ETHERNET_II: {
            if (i) { reach = false; break; }
            const EthernetII& e = static_cast<const EthernetII&>(*L.p);
            add("ether src " + e.src_addr().to_string(), true, "ether src");
            add("ether dst " + e.dst_addr().to_string(), true, "ether dst");
            add("ether src " + hwflip(e.src_addr()), false, "ether src");
            add("ether dst " + hwflip(e.dst_addr()), false, "ether dst");
            if (ch && ch->t == PDU::RAW && e.payload_type() >= 0x600) {
                add("ether proto " + n2s(e.payload_type()), true, "ether proto");
                add("ether proto " + n2s(e.payload_type() ^ 1), false, "ether proto");
            }
            if (ch && (ch->t == PDU::RSNEAPOL || ch->t == PDU::RC4EAPOL)) add("ether proto 0x888e", true, "ether proto eapol");
            if (!ch || (ch->t != PDU::DOT1Q && ch->t != PDU::IP && ch->t != PDU::IPv6 && ch->t != PDU::ARP && ch->t != PDU::PPPOE && ch->t != PDU::MPLS)) reach = false;
            break;
        }
        case PDU::DOT3: {
            if (i) { reach = false; break; }
            const Dot3& e = static_cast<const Dot3&>(*L.p);
            add("ether src " + e.src_addr().to_string(), true, "ether src");
            add("ether dst " + hwflip(e.dst_addr()), false, "ether dst");
            if (ch && ch->t == PDU::LLC && i + 2 < o.size() && o[i + 2].t == PDU::STP) add("stp", true, "stp");
            reach = false;       // libpcap does not look for IP / ARP behind 802.3 + SNAP on DLT_EN10MB
            break;
        }
        case PDU::DOT1Q: {
            const Dot1Q& q = static_cast<const Dot1Q&>(*L.p);
            add(pre + "vlan " + n2s(q.id()), true, "vlan");
            add(pre + "vlan " + n2s(q.id() ^ 1), false, "vlan");
            pre += "vlan " + n2s(q.id()) + " and ";
            if (!ch || (ch->t != PDU::DOT1Q && ch->t != PDU::IP && ch->t != PDU::IPv6 && ch->t != PDU::ARP)) reach = false;
            break;
        }
        case PDU::SLL: case PDU::LOOPBACK: {
            if (i || !ch || (ch->t != PDU::IP && ch->t != PDU::IPv6)) reach = false;
            break;
        }
        case PDU::RADIOTAP: {
            if (i || !ch) reach = false;
            break;
        }
        case PDU::SNAP: {
            const SNAP& s = static_cast<const SNAP&>(*L.p);
            if (s.org_code() != 0 || !ch || (ch->t != PDU::IP && ch->t != PDU::IPv6 && ch->t != PDU::ARP)) reach = false;
            break;
        }
        case PDU::MPLS: {
            const MPLS& m = static_cast<const MPLS&>(*L.p);
            if (!par || (par->t != PDU::ETHERNET_II && par->t != PDU::MPLS)) { reach = false; break; }
            add(pre + "mpls " + n2s(m.label()), true, "mpls");
            add(pre + "mpls " + n2s(m.label() ^ 1), false, "mpls");
            pre += "mpls " + n2s(m.label()) + " and ";
            if (!ch || (ch->t != PDU::MPLS && ch->t != PDU::IP && ch->t != PDU::IPv6)) reach = false;
            break;
        }
        case PDU::PPPOE: {
            const PPPoE& pp = static_cast<const PPPoE&>(*L.p);
            if (!par || par->t != PDU::ETHERNET_II) { reach = false; break; }
            if (pp.code() == 0) {
                add(pre + "pppoes " + n2s(pp.session_id()), true, "pppoes");
                add(pre + "pppoes " + n2s(pp.session_id() ^ 1), false, "pppoes");
                add(pre + "pppoed", false, "pppoed");
                pre += "pppoes and ";
                // a RawPDU holding the 2-byte PPP protocol, then IP / IPv6
                if (ch && ch->t == PDU::RAW && ch->hs == 2 && i + 2 < o.size() && (o[i + 2].t == PDU::IP || o[i + 2].t == PDU::IPv6)) { ++i; }
                else reach = false;
            }
            else { add(pre + "pppoed", true, "pppoed"); add(pre + "pppoes", false, "pppoes"); reach = false; }
            break;
        }
        case PDU::ARP: {
            const ARP& a = static_cast<const ARP&>(*L.p);
            add(pre + "arp", true, "arp");
            add(pre + "ip", false, "ip");
            add(pre + "arp[6:2] = " + n2s(a.opcode()), true, "arp opcode");
            add(pre + "arp[6:2] = " + n2s(a.opcode() ^ 1), false, "arp opcode");
            reach = false;
            break;
        }
        case PDU::IP: {
            const IP& ip = static_cast<const IP&>(*L.p);
            add(pre + "ip", true, "ip");
            add(pre + "ip6", false, "ip6");
            add(pre + "ip src " + v4s(ip.src_addr()), true, "ip src");
            add(pre + "ip dst " + v4s(ip.dst_addr()), true, "ip dst");
            add(pre + "ip src " + v4flip(ip.src_addr()), false, "ip src");
            add(pre + "ip dst " + v4flip(ip.dst_addr()), false, "ip dst");
            add(pre + "ip[2:2] = " + n2s(L.sz), true, "ip[2:2]");
            add(pre + "ip[2:2] = " + n2s((L.sz ^ 1) & 0xffff), false, "ip[2:2]");
            add(pre + "ip[0] & 0xf = " + n2s(L.hs / 4), true, "ip[0]&0xf");
            add(pre + "ip[8] = " + n2s(ip.ttl()), true, "ip[8]");
            bool fragment = ip.is_fragmented();
            if (ch && in_ip_space(ch->t)) {
                static const struct { PDU::PDUType t; int n; } tab[] = {{PDU::ICMP, 1}, {PDU::IP, 4}, {PDU::TCP, 6}, {PDU::UDP, 17}, {PDU::IPv6, 41}, {PDU::IPSEC_ESP, 50}, {PDU::IPSEC_AH, 51}, {PDU::ICMPv6, 58}};
                for (auto& e : tab) if (e.t == ch->t) { add(pre + "ip proto " + n2s(e.n), true, "ip proto"); add(pre + "ip proto " + n2s(e.n ^ 1), false, "ip proto"); }
            }
            if (fragment || !ch) { reach = false; break; }
            if (ch->t == PDU::TCP) {
                const TCP& t = static_cast<const TCP&>(*ch->p);
                add(pre + "tcp src port " + n2s(t.sport()), true, "tcp src port");
                add(pre + "tcp dst port " + n2s(t.dport()), true, "tcp dst port");
                add(pre + "tcp src port " + n2s(t.sport() ^ 1), false, "tcp src port");
                add(pre + "tcp dst port " + n2s(t.dport() ^ 1), false, "tcp dst port");
                add(pre + "tcp[12] & 0xf0 = " + n2s((ch->hs / 4) << 4), true, "tcp[12]");
                add(pre + "tcp[13] = " + n2s(t.flags() & 0xff), true, "tcp[13]");
                add(pre + "udp", false, "udp");
            }
            else if (ch->t == PDU::UDP) {
                const UDP& u = static_cast<const UDP&>(*ch->p);
                add(pre + "udp src port " + n2s(u.sport()), true, "udp src port");
                add(pre + "udp dst port " + n2s(u.dport()), true, "udp dst port");
                add(pre + "udp src port " + n2s(u.sport() ^ 1), false, "udp src port");
                add(pre + "udp dst port " + n2s(u.dport() ^ 1), false, "udp dst port");
                add(pre + "udp[4:2] = " + n2s(ch->sz), true, "udp[4:2]");
                add(pre + "udp[4:2] = " + n2s((ch->sz ^ 1) & 0xffff), false, "udp[4:2]");
                add(pre + "tcp", false, "tcp");
            }
            else if (ch->t == PDU::ICMP) {
                const ICMP& c = static_cast<const ICMP&>(*ch->p);
                add(pre + "icmp[icmptype] = " + n2s(c.type()), true, "icmp[icmptype]");
                add(pre + "icmp[icmptype] = " + n2s(c.type() ^ 1), false, "icmp[icmptype]");
                add(pre + "icmp[icmpcode] = " + n2s(c.code()), true, "icmp[icmpcode]");
            }
            reach = false;
            break;
        }
        case PDU::IPv6: {
            const IPv6& ip = static_cast<const IPv6&>(*L.p);
            add(pre + "ip6", true, "ip6");
            add(pre + "ip", false, "ip");
            add(pre + "ip6 src " + ip.src_addr().to_string(), true, "ip6 src");
            add(pre + "ip6 dst " + ip.dst_addr().to_string(), true, "ip6 dst");
            add(pre + "ip6 src " + v6flip(ip.src_addr()), false, "ip6 src");
            add(pre + "ip6 dst " + v6flip(ip.dst_addr()), false, "ip6 dst");
            add(pre + "ip6[4:2] = " + n2s(L.sz - 40), true, "ip6[4:2]");
            add(pre + "ip6[4:2] = " + n2s(((L.sz - 40) ^ 1) & 0xffff), false, "ip6[4:2]");
            add(pre + "ip6[7] = " + n2s(ip.hop_limit()), true, "ip6[7]");
            bool ext = !ip.headers().empty();
            bool frag = ip.search_header(IPv6::FRAGMENT) != 0;
            int pn = -1;
            if (ch) { if (ch->t == PDU::TCP) pn = 6; else if (ch->t == PDU::UDP) pn = 17; else if (ch->t == PDU::ICMPv6) pn = 58; else if (ch->t == PDU::IPSEC_AH) pn = 51; else if (ch->t == PDU::IP) pn = 4; else if (ch->t == PDU::IPv6) pn = 41; }
            if (pn >= 0 && !ext) { add(pre + "ip6 proto " + n2s(pn), true, "ip6 proto"); add(pre + "ip6 proto " + n2s(pn ^ 1), false, "ip6 proto"); }
            if (pn >= 0 && ext && !frag && pn != 51) { add(pre + "ip6 protochain " + n2s(pn), true, "ip6 protochain"); }
            if (!ch || ext) { reach = false; break; }
            if (ch->t == PDU::TCP) {
                const TCP& t = static_cast<const TCP&>(*ch->p);
                add(pre + "tcp src port " + n2s(t.sport()), true, "tcp src port/6");
                add(pre + "tcp dst port " + n2s(t.dport()), true, "tcp dst port/6");
                add(pre + "tcp dst port " + n2s(t.dport() ^ 1), false, "tcp dst port/6");
                add(pre + "ip6[52] & 0xf0 = " + n2s((ch->hs / 4) << 4), true, "ip6[52]");
            }
            else if (ch->t == PDU::UDP) {
                const UDP& u = static_cast<const UDP&>(*ch->p);
                add(pre + "udp src port " + n2s(u.sport()), true, "udp src port/6");
                add(pre + "udp dst port " + n2s(u.dport()), true, "udp dst port/6");
                add(pre + "udp src port " + n2s(u.sport() ^ 1), false, "udp src port/6");
                add(pre + "ip6[44:2] = " + n2s(ch->sz), true, "ip6[44:2]");
            }
            else if (ch->t == PDU::ICMPv6) {
                const ICMPv6& c = static_cast<const ICMPv6&>(*ch->p);
                add(pre + "icmp6", true, "icmp6");
                add(pre + "ip6[40] = " + n2s(c.type()), true, "ip6[40]");
                add(pre + "ip6[40] = " + n2s(c.type() ^ 1), false, "ip6[40]");
            }
            reach = false;
            break;
        }
        default:
            if (L.p->matches_flag(PDU::DOT11)) {
                const Dot11& d = static_cast<const Dot11&>(*L.p);
                add("wlan addr1 " + d.addr1().to_string(), true, "wlan addr1");
                add("wlan addr1 " + hwflip(d.addr1()), false, "wlan addr1");
                if (L.t == PDU::DOT11_DATA || L.t == PDU::DOT11_QOS_DATA) { add("type data", true, "wlan type"); add("type mgt", false, "wlan type"); }
                else if (L.t == PDU::DOT11_BEACON) { add("type mgt subtype beacon", true, "wlan subtype"); add("type data", false, "wlan type"); }
                if ((L.t != PDU::DOT11_DATA && L.t != PDU::DOT11_QOS_DATA) || d.wep() || !ch || ch->t != PDU::SNAP) reach = false;
            }
            else reach = false;
            break;
        }
    }
    for (auto& p : pl.preds) pl.progs.push_back(compiled(pl.dlt, p.expr));
}

static void run_plan(const Plan& pl, const Bytes& w, const std::string& kase) {
    if (pl.dlt < 0) return;
    pcap_pkthdr h; memset(&h, 0, sizeof h); h.caplen = h.len = (bpf_u_int32)w.size();
    for (size_t i = 0; i < pl.preds.size(); ++i) {
        if (!pl.progs[i]) continue;
        bool m = pcap_offline_filter(pl.progs[i], &h, w.data()) != 0;
        R.count(pl.preds[i].expect ? "pcap_predicates_value_set" : "pcap_predicates_other_value");
        if (m != pl.preds[i].expect)
            R.violation(std::string("pcap:") + (pl.preds[i].expect ? "no-match-for-value-set:" : "match-for-other-value:") + pl.preds[i].kind,
                        "filter '" + pl.preds[i].expr + "' on DLT " + std::to_string(pl.dlt) + (m ? " matches" : " does not match") + " frame " + hex(w).substr(0, 400), kase);
    }
}

// =============================================================================== the judge
static bool g_fast_counts = false;    // sweeps: skip the string-keyed counters that do not change with the value
static std::string g_note;            // family R: which serialization of the history is being judged

static void judge(PDU& root, const Bytes& w, const std::string& kase, const Plan* plan) {
    const uint8_t* b = w.data();
    const size_t n = w.size();
    std::vector<OL> o = layers_of(root, n);
    auto V = [&](const std::string& sig, const std::string& detail) { R.violation(sig, detail + (g_note.empty() ? std::string() : " | at step '" + g_note + "'") + " | frame " + hex(w).substr(0, 600) + (w.size() > 300 ? "..." : ""), kase); };
    if (o[0].sz != n) V("harness:size-differs", "size() " + std::to_string(o[0].sz) + " serialized " + std::to_string(n));
    ref::State st(o[0].want, 0, n);
    bool valid = o[0].want != ref::P_NONE;
    Proto tagged = ref::P_NONE;      // what the previous layer's tag named
    bool prev_opaque = false;
    std::string seq;
    for (size_t i = 0; i < o.size(); ++i) {
        const OL& L = o[i];
        const OL* ch = i + 1 < o.size() ? &o[i + 1] : 0;
        if (L.t == PDU::RAW && !ch) break;
        if (L.off > n || L.rend > n || L.off > L.rend) { V("harness:layout", "layer offsets beyond the frame"); break; }
        if (L.want == ref::P_NONE) { valid = false; tagged = ref::P_NONE; prev_opaque = true; continue; }
        // --- did the layer above announce this layer?
        bool announced = valid && same_proto(L.want, st.proto) && st.off == L.off;
        if (i && !announced) {
            if (!prev_opaque && known_adjacency(o[i - 1], L) && !same_proto(L.want, tagged)) {
                V("tag:" + clsname(*o[i - 1].p) + "->" + clsname(*L.p), clsname(*o[i - 1].p) + " is followed by " + clsname(*L.p) + " but its next-protocol tag names '" + ref::pname(tagged) + "'");
            }
            else if (valid && st.off != L.off && same_proto(L.want, st.proto)) { /* header length disagreement: reported below as hdrlen */ }
            // re-synchronise on the object's layer boundary; pseudo header context only when the parent is the IP layer just dissected
            ref::Ctx c; if (valid && st.off == L.off) c = st.ctx; c.direct = false;
            st = ref::State(L.want, L.off, L.rend, c);
            if (i && !known_adjacency(o[i - 1], L)) R.count("resync_unknown_adjacency");
        }
        else if (i) R.count("tags_checked");
        if (st.end != L.rend) {
            // the wire-delimited region differs from the object's: a length field is off; reported by the claim check of the parent
            st.end = L.rend;
        }
        if (L.t == PDU::IPv6 && (!ch || !in_ip_space(ch->t))) st.max_ext = (int)static_cast<const IPv6&>(*L.p).headers().size();   // last next-header is the user's
        ref::Layer D = ref::dissect_one(b, n, st);
        R.count("layers_dissected");
        seq += ref::pname(D.proto); seq += '/';
        // Ethernet II object whose type field reads as an 802.3 length (type < 0x600 set by the user or no payload), and the reverse
        bool class_mismatch = (L.t == PDU::ETHERNET_II && D.proto == ref::P_DOT3) || (L.t == PDU::DOT3 && D.proto == ref::P_ETH) ||
                              (L.t == PDU::LLC && D.proto == ref::P_SNAP);
        bool unrepresentable = false, derailed = false;
        if (L.t == PDU::IPSEC_AH && (L.hs % 4) != 0) unrepresentable = true;       // ICV not a multiple of 32 bits: no AH length value exists
        if (L.t == PDU::TCP && L.hs > 60) unrepresentable = true;
        if (L.t == PDU::IP && L.hs > 60) unrepresentable = true;
        if (unrepresentable) R.count("unrepresentable_layers");
        if (L.t == PDU::ICMP || L.t == PDU::ICMPv6) {
            // RFC 4884 length octet: 8 bits of 32-bit (ICMP) / 64-bit (ICMPv6) words; a longer original datagram cannot be announced
            bool he = L.t == PDU::ICMP ? static_cast<const ICMP&>(*L.p).has_extensions() : static_cast<const ICMPv6&>(*L.p).has_extensions();
            unsigned lf = L.t == PDU::ICMP ? static_cast<const ICMP&>(*L.p).length() : static_cast<const ICMPv6&>(*L.p).length();
            size_t unit = L.t == PDU::ICMP ? 4 : 8;
            (void)lf;
            if (D.rfc4884 && he && ch && ch->sz + unit > 255 * unit) { unrepresentable = true; R.count("unrepresentable_layers"); }
        }
        if (L.t == PDU::DOT3 && D.proto == ref::P_ETH) {
            // Dot3 whose payload is >= 1536 bytes: the length field reads as an EtherType; 802.3 cannot express it
            unrepresentable = true; R.count("unrepresentable_layers");
        }
        if (!class_mismatch && !unrepresentable) {
            // --- header length / offset fields
            if (D.hlen_from_wire) {
                R.count("hdrlens_checked");
                if (L.t == PDU::IPv6) {
                    const IPv6& ip6 = static_cast<const IPv6&>(*L.p);
                    size_t k = 0; bool bad = false;
                    for (auto it = ip6.headers().begin(); it != ip6.headers().end() && !bad; ++it, ++k) {
                        size_t need = (it->data_size() + 2 + 7) / 8 * 8;
                        if (k >= D.ext.size() || D.ext[k].len != need) {
                            bad = true;
                            V("len:IPv6.ext-header-length", "extension header #" + std::to_string(k) + " (type " + std::to_string(it->option()) + ") carries " + std::to_string(it->data_size()) +
                              " data bytes = " + std::to_string(need) + " bytes on the wire, its length octet announces " + (k < D.ext.size() ? std::to_string(D.ext[k].len) : std::string("nothing (chain ended)")));
                        }
                    }
                    if (bad) derailed = true;
                    if (!bad && D.hlen != L.hs) V("hdrlen:IPv6.ext-chain", "extension chain ends at " + std::to_string(D.hlen) + ", header is " + std::to_string(L.hs) + " bytes");
                    R.count("ip6_ext_headers_checked", k);
                }
                else if (D.hlen != L.hs)
                    V("hdrlen:" + clsname(*L.p) + "." + D.claim_name, std::string(D.claim_name) + " announces a header of " + std::to_string(D.hlen) + " bytes, the header is " + std::to_string(L.hs) + " bytes");
            }
            // --- length fields
            if (D.claim_end != ref::NPOS) {
                R.count("lengths_checked");
                if (D.claim_end != L.off + L.sz)
                    V("len:" + clsname(*L.p) + "." + D.claim_name, std::string(D.claim_name) + " governs " + std::to_string(D.claim_end - L.off) + " bytes from the start of the header, the layer is " + std::to_string(L.sz) + " bytes");
            }
            // --- what the dissector found wrong by itself (checksums, overruns, chains)
            bool ext_allowed = true;
            if (L.t == PDU::ICMPv6) ext_allowed = static_cast<const ICMPv6&>(*L.p).type() == ICMPv6::TIME_EXCEEDED;     // libtins derives the RFC 4884 octet only there
            bool nd_judged = true;      // neighbour discovery options / MLDv2 records: only what the wire format can express, and nothing appended behind them
            if (L.t == PDU::ICMPv6) {
                const ICMPv6& c6 = static_cast<const ICMPv6&>(*L.p);
                if (ch) nd_judged = false;
                for (auto& op : c6.options()) if ((op.data_size() + 2) % 8 != 0 || op.length_field() != op.data_size()) nd_judged = false;
                for (auto& r : c6.multicast_address_records()) if (r.aux_data.size() % 4 != 0 || r.aux_data.size() > 1020) nd_judged = false;
                if (nd_judged && (D.nd_options || D.mld_records >= 0)) R.count("icmpv6_option_lists_checked");
            }
            // RFC 4884 length octet in a message built WITHOUT extension structure: it must cover exactly the rest of the message
            bool lone_length = false;
            if ((L.t == PDU::ICMP || L.t == PDU::ICMPv6) && D.rfc4884 && ext_allowed && D.rfc4884_len != 0 &&
                !(L.t == PDU::ICMP ? static_cast<const ICMP&>(*L.p).has_extensions() : static_cast<const ICMPv6&>(*L.p).has_extensions())) {
                lone_length = true;
                size_t body = L.rend - L.off - 8;
                R.count("lengths_checked");
                if (D.rfc4884_len != body)
                    V("len:" + clsname(*L.p) + ".rfc4884-length", "length octet announces " + std::to_string(D.rfc4884_len) + " bytes of original datagram; the message carries " + std::to_string(body) +
                      " bytes after its header and was built without extension structure");
            }
            // Extension structure on a message that quotes NO original datagram (not a message RFC 4884 describes: nothing to pad to 128 bytes).
            // libtins puts the structure right behind the header; judged: the length octet announces nothing, the structure there verifies.
            bool ext_no_datagram = false;
            if ((L.t == PDU::ICMP || L.t == PDU::ICMPv6) && D.rfc4884 && ext_allowed && !ch &&
                (L.t == PDU::ICMP ? static_cast<const ICMP&>(*L.p).has_extensions() : static_cast<const ICMPv6&>(*L.p).has_extensions())) {
                ext_no_datagram = true; lone_length = true;       // lone_length: the generic RFC 4884 placement rules do not apply
                R.count("icmp_extension_structures_without_datagram");
                if (D.rfc4884_len != 0) V("len:" + clsname(*L.p) + ".rfc4884-length", "length octet announces " + std::to_string(D.rfc4884_len) + " bytes of original datagram; nothing is quoted");
                ref::Layer E;
                if (L.off + L.hs <= L.rend) ref::check_ext_structure(b, L.off + L.hs, L.rend, E);
                for (auto& is : E.issues) V(is.sig, is.detail);
                R.count("checksums_verified", E.cksum_checked - E.cksum_bad);
            }
            for (auto& is : D.issues) {
                if (lone_length && (is.sig.compare(0, 8, "icmp-ext") == 0 || is.sig.compare(0, 12, "icmp:rfc4884") == 0 || is.sig == "cksum:icmp-extension-structure")) continue;
                if (!nd_judged && (is.sig.compare(0, 10, "icmpv6:nd-") == 0 || is.sig.compare(0, 12, "icmpv6:mld2-") == 0)) continue;
                if (derailed && is.sig.compare(0, 4, "ip6:") == 0) continue;      // consequences of the extension header length reported above
                if (!ext_allowed && (is.sig.compare(0, 8, "icmp-ext") == 0 || is.sig.compare(0, 12, "icmp:rfc4884") == 0 || is.sig == "cksum:icmp-extension-structure")) continue;
                if (is.sig == "pppoe:tag-length" && ch) continue;         // tags followed by a payload: not a discovery frame the API means to build
                if (is.sig.size() > 9 && is.sig.compare(is.sig.size() - 6, 6, "-short") == 0 && D.claim_end != ref::NPOS && D.claim_end == L.off + L.sz) continue;   // region was the harness's, length is right
                V(is.sig, is.detail);
            }
            R.count("checksums_verified", D.cksum_checked - D.cksum_bad);
            if (D.proto == ref::P_UDP && D.cksum_checked && D.cksum_wire == 0xffff) R.count("udp_checksum_ffff_on_wire");
            if ((D.proto == ref::P_UDP || D.proto == ref::P_TCP) && !st.ctx.direct) R.count(D.cksum_wire ? "transport_not_directly_in_ip_checksum_nonzero" : "transport_not_directly_in_ip_checksum_zero");
            // --- protocol specific derived fields
            if (L.t == PDU::IPv6 && !ch && !derailed && D.issues.empty() && !D.no_next_header)
                V("tag:IPv6->nothing", "IPv6 without payload ends its next-header chain with " + std::to_string(D.tag) + " instead of 59");
            if (L.t == PDU::MPLS && L.p->parent_pdu()) {
                bool want_bos = !(ch && ch->t == PDU::MPLS);
                R.count("tags_checked");
                if (want_bos && !D.mpls_bos) V("tag:MPLS.bottom_of_stack", std::string("bottom-of-stack bit is ") + (D.mpls_bos ? "1" : "0") + " while the next layer is " + (ch ? clsname(*ch->p) : std::string("nothing")));
            }
            if (L.t == PDU::ETHERNET_II) {
                size_t pad = L.ts; int ntags = 0;
                for (size_t j = i + 1; j < o.size() && o[j].t == PDU::DOT1Q; ++j) { pad += o[j].ts; ++ntags; }
                std::vector<ref::Issue> is;
                ref::check_eth_padding(b, L.off, L.rend, L.rend - pad, ntags, is);
                R.count("ethernet_frames_padding_checked");
                if (pad) R.count("ethernet_frames_with_padding");
                for (auto& x : is) V(x.sig, x.detail);
            }
            if (L.t == PDU::RADIOTAP) {
                if ((L.ts == 4) != D.fcs_present) V("harness:radiotap-fcs-flag", "object trailer " + std::to_string(L.ts) + " dissector fcs " + std::to_string(D.fcs_present));
            }
            if (L.t == PDU::ICMP || L.t == PDU::ICMPv6) {
                bool has_ext = L.t == PDU::ICMP ? static_cast<const ICMP&>(*L.p).has_extensions() : static_cast<const ICMPv6&>(*L.p).has_extensions();
                size_t nobj = L.t == PDU::ICMP ? static_cast<const ICMP&>(*L.p).extensions().extensions().size() : static_cast<const ICMPv6&>(*L.p).extensions().extensions().size();
                unsigned unit = L.t == PDU::ICMP ? 4 : 8;
                size_t inner = ch ? ch->sz : 0;
                if (has_ext && ext_allowed && !ext_no_datagram) {
                    R.count("icmp_extension_structures_checked");
                    if (!D.ext_present) V("icmp-ext:not-found-by-dissector", "the object carries " + std::to_string(nobj) + " extension objects; no valid extension structure where RFC 4884 puts it (length octet " + std::to_string(D.rfc4884_len) + " bytes)");
                    else if (D.ext_ok && (size_t)D.ext_objects != nobj) V("icmp-ext:object-count", "dissected " + std::to_string(D.ext_objects) + " objects, built " + std::to_string(nobj));
                }
                if (D.rfc4884 && ext_allowed && D.issues.empty() && !lone_length) {
                    size_t inner_end = L.off + L.hs + inner;
                    if (D.orig_end >= inner_end && D.orig_end <= n && !ref::all_zero(b, inner_end, D.orig_end)) V("icmp:rfc4884-padding-not-zero", "non-zero byte in the zero fill of the original datagram field");
                    if (D.rfc4884_len) {
                        size_t expect = (inner + unit - 1) / unit * unit;
                        if (has_ext && expect < 128) expect = 128;
                        R.count("lengths_checked");
                        if (D.rfc4884_len != expect)
                            V("len:" + clsname(*L.p) + ".rfc4884-length", "length octet announces " + std::to_string(D.rfc4884_len) + " bytes of original datagram; the datagram is " + std::to_string(inner) + " bytes, padded " + std::to_string(expect));
                    }
                }
            }
        }
        // --- next
        tagged = D.tag_names; prev_opaque = class_mismatch || unrepresentable || derailed;
        if (L.t == PDU::LLC && D.proto == ref::P_SNAP) { tagged = ref::P_NONE; prev_opaque = true; }
        st = D.child;
        valid = D.next != ref::P_NONE && !class_mismatch && !unrepresentable;
        if (valid && ch && st.off != ch->off) valid = false;      // header length disagreement already reported
        if (D.opaque) { valid = false; }
    }
    if (!g_fast_counts) {
        R.dist("distinct_dissected_sequences", fnv(seq));
        uint64_t sth = 0xcbf29ce484222325ULL;
        for (auto& L : o) { uint32_t v[3] = {(uint32_t)L.t, (uint32_t)L.hs, (uint32_t)L.ts}; sth = fnv(v, sizeof v, sth); }
        R.dist("distinct_nontrivial", sth);
    }
    // --- free-running walk from the link type: the sequence it sees must be the object's sequence as far as libtins knows the adjacencies
    if (!g_fast_counts && o[0].want != ref::P_NONE) {
        std::vector<ref::Layer> fr = ref::dissect(b, n, o[0].want);
        size_t k = 0;
        for (size_t i = 0; i < o.size() && k < fr.size(); ++i, ++k) {
            if (o[i].t == PDU::RAW || o[i].want == ref::P_NONE) break;
            if (fr[k].off != o[i].off || !(same_proto(o[i].want, fr[k].proto) || (o[i].want == ref::P_LLC && fr[k].proto == ref::P_SNAP))) {
                if (i && known_adjacency(o[i - 1], o[i]) && !fr[k - 1].opaque) R.count("free_walk_diverged_at_known_adjacency");   // already reported through tag:/hdrlen: above
                break;
            }
            if (i + 1 < o.size() && !known_adjacency(o[i], o[i + 1])) { ++k; break; }
        }
        R.count("free_walk_layers_agreeing", k);
    }
    if (plan) run_plan(*plan, w, kase);
}

// one complete case: serialize, judge, pcap
static void check_packet(PDU* rootp, const std::string& kase, const char* ctx = "C05:built") {
    std::unique_ptr<PDU> holder(rootp);
    if (!g_only.empty() && kase != g_only) return;
    uint64_t my = g_idx++;
    if (skipped(my)) return;
    set_case(my, ctx, kase);
    Mon::reset();
    if (needs_environment(*rootp)) { R.count("skipped_env"); return; }
    if (has_unserializable(*rootp)) { R.count("skipped_not_serializable"); return; }
    if (rootp->size() == 0) { R.count("skipped_empty"); return; }       // nothing on the wire (PDU::serialize() of an empty PDU is C02's subject)
    Bytes w;
    if (rootp->size() > 65535) { R.count("skipped_over_65535"); if (getenv("C05_DEBUG")) fprintf(stderr, "over65535: %s size %u\n", kase.c_str(), rootp->size()); return; }
    try { w = rootp->serialize(); }
    catch (std::exception& e) { R.count("skipped_serialize_threw"); if (getenv("C05_DEBUG")) fprintf(stderr, "threw: %s %s\n", kase.c_str(), e.what()); return; }     // totality of serialize() is C02's subject
    if (w.size() > 65535) { R.count("skipped_over_65535"); return; }
    R.count("evaluations");
    Plan pl;
    build_plan(layers_of(*rootp, w.size()), pl);
    judge(*rootp, w, kase, &pl);
    if (Mon::errors) R.violation(Mon::first, Mon::first_detail, kase);
}

// =============================================================================== family X / S: stack shapes
static RawPDU raw(size_t n, uint8_t seed = 0x41) { return RawPDU(pattern(n, seed)); }
static IPv6 ip6_ext(std::initializer_list<std::pair<int, int> > hs) {
    IPv6 i = ip6();
    for (auto& h : hs) { Bytes d = pattern(h.second, 0x10); if (h.first == IPv6::FRAGMENT) { d.assign(6, 0); d[5] = 1; } i.add_header(IPv6::ext_header((uint8_t)h.first, d.size(), d.data())); }
    return i;
}
static ICMP icmp_err(int type, bool ext, bool lenfield) {
    ICMP c((ICMP::Flags)type);
    if (ext) { ICMPExtension e(1, 1); e.payload(pattern(8, 0x21)); c.extensions().add_extension(e); ICMPExtension e2(2, 3); e2.payload(pattern(4, 0x55)); c.extensions().add_extension(e2); }
    if (lenfield) c.use_length_field(true);
    return c;
}
static ICMPv6 icmp6_err(bool ext, bool lenfield) {
    ICMPv6 c(ICMPv6::TIME_EXCEEDED);
    if (ext) { ICMPExtension e(1, 1); e.payload(pattern(8, 0x21)); c.extensions().add_extension(e); }
    if (lenfield) c.use_length_field(true);
    return c;
}
static RadioTap rtap(bool fcs) {
    RadioTap rt;
    if (fcs) { rt.tsft(0x1122334455667788ULL); rt.flags(RadioTap::FCS); rt.rate(2); }
    else { rt.channel(2412, RadioTap::CCK | RadioTap::TWO_GZ); rt.dbm_signal(-40); }
    return rt;
}
static TCP tcp_opts() { TCP t(80, 1025); t.mss(1460); t.winscale(7); t.sack_permitted(); t.timestamp(0x01020304, 0x0a0b0c0d); t.flags(TCP::SYN); return t; }
static IP ip_opts() { IP i = ip4(); i.noop(); i.stream_identifier(0x1234); return i; }       // 5 option bytes -> padded to 8
static Dot11Data d11() { Dot11Data d = dot11_data(); d.from_ds(1); return d; }
static Dot11QoSData d11q() { Dot11QoSData d("02:00:00:00:00:01", "02:00:00:00:00:02"); d.addr3("02:00:00:00:00:03"); d.to_ds(1); d.qos_control(5); return d; }

struct Shape { const char* name; std::function<PDU*(size_t)> make; size_t even, odd; bool has_pseudo; };

static std::vector<Shape> shapes() {
    std::vector<Shape> s;
    #define SH(NAME, EXPR, EV, OD) s.push_back(Shape{NAME, [](size_t n) -> PDU* { return (EXPR).clone(); }, EV, OD, true})
    SH("eth/ip/tcp", eth() / ip4() / TCP(80, 40000) / raw(n), 8, 7);
    SH("eth/ip/udp", eth() / ip4() / UDP(53, 4000) / raw(n), 8, 7);
    SH("ip/icmp-echo", ip4() / ICMP(ICMP::ECHO_REQUEST) / raw(n), 8, 7);
    SH("ip/udp", ip4() / UDP(1234, 4321) / raw(n), 8, 7);
    SH("eth/ipv6/tcp", eth() / ip6() / TCP(80, 2) / raw(n), 8, 7);
    SH("eth/ipv6/udp", eth() / ip6() / UDP(80, 2) / raw(n), 8, 7);
    SH("eth/ipv6/icmpv6-echo", eth() / ip6() / ICMPv6(ICMPv6::ECHO_REQUEST) / raw(n), 8, 7);
    SH("ipv6/udp", ip6() / UDP(546, 547) / raw(n), 8, 7);
    SH("eth/ip[opts]/tcp", eth() / ip_opts() / TCP(80, 40000) / raw(n), 8, 7);
    SH("eth/ip[opts]/udp", eth() / ip_opts() / UDP(7, 7) / raw(n), 8, 7);
    SH("eth/ip/tcp[opts]", eth() / ip4() / tcp_opts() / raw(n), 8, 7);
    SH("eth/ipv6[hbh6]/tcp", eth() / ip6_ext({{IPv6::HOP_BY_HOP, 6}}) / TCP(1, 2) / raw(n), 8, 7);
    SH("eth/ipv6[dst12,rt6]/udp", eth() / ip6_ext({{IPv6::DESTINATION_ROUTING_OPTIONS, 12}, {IPv6::ROUTING, 6}}) / UDP(1, 2) / raw(n), 8, 7);
    SH("eth/ipv6[hbh4]/icmpv6-echo", eth() / ip6_ext({{IPv6::HOP_BY_HOP, 4}}) / ICMPv6(ICMPv6::ECHO_REPLY) / raw(n), 8, 7);
    SH("eth/dot1q/ip/udp", eth() / Dot1Q(100) / ip4() / UDP(1, 2) / raw(n), 8, 7);
    SH("eth/dot1q/ipv6/tcp", eth() / Dot1Q(4094) / ip6() / TCP(1, 2) / raw(n), 8, 7);
    SH("eth/dot1q/dot1q/ip/tcp", eth() / Dot1Q(10) / Dot1Q(20) / ip4() / TCP(1, 2) / raw(n), 8, 7);
    SH("eth/dot1q(nopad)/ip/udp", eth() / Dot1Q(5, false) / ip4() / UDP(1, 2) / raw(n), 8, 7);
    SH("dot3/snap/ip/udp", Dot3(MAC2, MAC1) / SNAP() / ip4() / UDP(1, 2) / raw(n), 8, 7);
    SH("dot3/llc/snap/ip/udp", Dot3(MAC2, MAC1) / LLC(0xaa, 0xaa) / SNAP() / ip4() / UDP(1, 2) / raw(n), 8, 7);
    SH("sll/ip/tcp", SLL() / ip4() / TCP(1, 2) / raw(n), 8, 7);
    SH("sll/ipv6/udp", SLL() / ip6() / UDP(1, 2) / raw(n), 8, 7);
    SH("loopback/ip/udp", Loopback() / ip4() / UDP(1, 2) / raw(n), 8, 7);
    SH("loopback/ipv6/tcp", Loopback() / ip6() / TCP(1, 2) / raw(n), 8, 7);
    s.push_back(Shape{"eth/pppoe-session/ppp/ip/udp", [](size_t n) -> PDU* { PPPoE p; p.code(0); p.session_id(0x11); Bytes pr = {0x00, 0x21}; return (eth() / p / RawPDU(pr) / ip4() / UDP(1, 2) / raw(n)).clone(); }, 8, 7, true});
    s.push_back(Shape{"eth/pppoe-session/ppp/ipv6/tcp", [](size_t n) -> PDU* { PPPoE p; p.code(0); p.session_id(0x2222); Bytes pr = {0x00, 0x57}; return (eth() / p / RawPDU(pr) / ip6() / TCP(1, 2) / raw(n)).clone(); }, 8, 7, true});
    s.push_back(Shape{"eth/mpls/ip/udp", [](size_t n) -> PDU* { MPLS m; m.label(1000); m.ttl(64); return (eth() / m / ip4() / UDP(1, 2) / raw(n)).clone(); }, 8, 7, true});
    s.push_back(Shape{"eth/mpls/mpls/ipv6/tcp", [](size_t n) -> PDU* { MPLS m; m.label(1000); m.ttl(64); MPLS m2; m2.label(16); m2.ttl(1); return (eth() / m / m2 / ip6() / TCP(1, 2) / raw(n)).clone(); }, 8, 7, true});
    SH("ip/icmp-ttl+ext", ip4() / icmp_err(ICMP::TIME_EXCEEDED, true, false) / raw(n), 40, 41);
    SH("eth/ip/icmp-unreach+ext+len", eth() / ip4() / icmp_err(ICMP::DEST_UNREACHABLE, true, true) / raw(n), 40, 41);
    SH("eth/ip/icmp-unreach+ext(>128)", eth() / ip4() / icmp_err(ICMP::DEST_UNREACHABLE, true, false) / raw(n), 136, 137);
    SH("eth/ip/icmp-paramproblem+len", eth() / ip4() / icmp_err(ICMP::PARAM_PROBLEM, false, true) / raw(n), 40, 44);
    SH("eth/ip/icmp-unreach/ip/udp", eth() / ip4() / ICMP(ICMP::DEST_UNREACHABLE) / IP("10.0.0.2", "10.0.0.1") / UDP(53, 1000) / raw(n), 8, 7);
    SH("eth/ipv6/icmpv6-ttl+ext", eth() / ip6() / icmp6_err(true, false) / raw(n), 48, 49);
    SH("eth/ipv6/icmpv6-ttl+ext+len(>128)", eth() / ip6() / icmp6_err(true, true) / raw(n), 136, 137);
    SH("radiotap[fcs]/data/snap/ip/udp", rtap(true) / d11() / SNAP() / ip4() / UDP(1, 2) / raw(n), 8, 7);
    SH("radiotap/qosdata/snap/ipv6/tcp", rtap(false) / d11q() / SNAP() / ip6() / TCP(1, 2) / raw(n), 8, 7);
    SH("radiotap[fcs]/beacon", rtap(true) / Dot11Beacon() / raw(n), 8, 7);
    SH("eth/ip/ip/tcp", eth() / ip4() / IP("10.0.0.2", "10.0.0.1") / TCP(1, 2) / raw(n), 8, 7);
    SH("eth/ip/ipv6/udp", eth() / ip4() / ip6() / UDP(1, 2) / raw(n), 8, 7);
    SH("eth/ipv6/ip/udp", eth() / ip6() / ip4() / UDP(1, 2) / raw(n), 8, 7);
    SH("eth/ipv6/ipv6/tcp", eth() / ip6() / IPv6("2001:db8:1::2", "2001:db8:1::1") / TCP(1, 2) / raw(n), 8, 7);
    s.push_back(Shape{"eth/ip/ah/udp", [](size_t n) -> PDU* { IPSecAH ah; ah.spi(0x11223344); ah.seq_number(5); ah.icv(pattern(12)); return (eth() / ip4() / ah / UDP(1, 2) / raw(n)).clone(); }, 8, 7, false});
    s.push_back(Shape{"eth/ipv6/ah/tcp", [](size_t n) -> PDU* { IPSecAH ah; ah.spi(7); ah.icv(pattern(12)); return (eth() / ip6() / ah / TCP(1, 2) / raw(n)).clone(); }, 8, 7, false});
    SH("eth/ip/udp/vxlan/eth/ip/tcp", eth() / ip4() / UDP(4789, 4789) / VXLAN(5000) / eth() / IP("10.0.0.2", "10.0.0.1") / TCP(1, 2) / raw(n), 8, 7);
    SH("eth/ip/icmp-timestamp", eth() / ip4() / ICMP(ICMP::TIMESTAMP_REQUEST) / raw(n), 8, 7);
    #undef SH
    return s;
}

static RawPDU* innermost_raw(PDU* p) { while (p->inner_pdu()) p = p->inner_pdu(); return p->pdu_type() == PDU::RAW ? static_cast<RawPDU*>(p) : 0; }

// sweep kinds: 0 payload word, even length; 1 payload word, odd length (word straddles the padded last byte); 2 IPv4 id of the outermost IP; 3 word inside the first ICMP extension object
static const char* KIND[] = {"payload-even", "payload-odd", "ip-id", "ext-object", "payload-even-long", "payload-odd-long"};

static bool sweep_applicable(PDU& root, int kind) {
    if (kind <= 1 || kind >= 4) return innermost_raw(&root) != 0;
    if (kind == 2) return root.find_pdu<IP>() != 0;
    ICMP* c = root.find_pdu<ICMP>(); ICMPv6* c6 = root.find_pdu<ICMPv6>();
    return (c && c->has_extensions()) || (c6 && c6->has_extensions());
}
static void set_word(PDU& root, int kind, uint16_t v) {
    if (kind <= 1 || kind >= 4) { RawPDU* r = innermost_raw(&root); Bytes& p = r->payload(); size_t at = (kind == 0 || kind == 4) ? 0 : p.size() - 2; p[at] = uint8_t(v >> 8); p[at + 1] = uint8_t(v); }
    else if (kind == 2) root.find_pdu<IP>()->id(v);
    else {
        ICMP* c = root.find_pdu<ICMP>(); ICMPv6* c6 = root.find_pdu<ICMPv6>();
        ICMPExtensionsStructure& es = (c && c->has_extensions()) ? c->extensions() : c6->extensions();
        ICMPExtension& e = es.extensions_.front();
        e.payload_[0] = uint8_t(v >> 8); e.payload_[1] = uint8_t(v);
    }
}

// values of the reduced sweep: stride 251, boundaries, and (computed with the reference sum) the values that drive each checksum field to 0x0000 / 0xffff
static std::vector<uint32_t> reduced_values(PDU& root, int kind) {
    std::set<uint32_t> v;
    for (uint32_t x = 0; x < 65536; x += 251) v.insert(x);
    for (uint32_t x : {0u, 1u, 2u, 0xfeu, 0xffu, 0x100u, 0x101u, 0x7fffu, 0x8000u, 0x8001u, 0xff00u, 0xfffeu, 0xffffu}) v.insert(x);
    // the checksum is linear in the word: field(v) = ~(S0 +' v) (or byte-swapped for the odd placement). Probe v = 0, read every 16-bit checksum
    // field the dissector found, and add the words that bring that field to 0xffff, 0x0000 and their neighbours.
    set_word(root, kind, 0);
    Bytes w = root.serialize();
    std::vector<OL> o = layers_of(root, w.size());
    std::vector<ref::Layer> fr;
    for (auto& L : o) if (L.want != ref::P_NONE && L.t != PDU::RAW) { ref::Layer D = ref::dissect_one(w.data(), w.size(), ref::State(L.want, L.off, L.rend)); if (D.proto == ref::P_UDP || D.proto == ref::P_TCP || D.proto == ref::P_ICMP || D.proto == ref::P_ICMP6 || D.proto == ref::P_IP4) fr.push_back(D); }
    for (auto& D : fr) {
        uint16_t f0 = D.cksum_wire;                  // field with word = 0:  f0 = ~S0
        uint16_t s0 = uint16_t(~f0);
        for (int target : {0xffff, 0x0000, 0x0001, 0xfffe}) {
            // want S0 +' x = target  =>  x = target -' S0 (one's complement subtraction)
            uint32_t x = (uint32_t(target) + uint16_t(~s0));
            x = (x & 0xffff) + (x >> 16); x &= 0xffff;
            v.insert(x); v.insert(((x & 0xff) << 8) | (x >> 8));
            v.insert(x ^ 0xffff); v.insert((((x & 0xff) << 8) | (x >> 8)) ^ 0xffff);
        }
    }
    return std::vector<uint32_t>(v.begin(), v.end());
}

static void sweep(const Shape& sh, size_t shape_no, int kind, int job, int njobs) {
    size_t len = kind == 1 ? sh.odd : sh.even;
    if (kind >= 4) { bool r4884 = strstr(sh.name, "+ext") || strstr(sh.name, "+len"); len = (r4884 ? 600 : 1400) + (kind == 5 ? 1 : 0); }
    std::unique_ptr<PDU> root(sh.make(len));
    if (!sweep_applicable(*root, kind)) return;
    std::vector<uint32_t> vals;
    if (g_reduced && !A.thorough()) vals = reduced_values(*root, kind);
    else { vals.reserve(65536); for (uint32_t x = 0; x < 65536; ++x) vals.push_back(x); }
    std::string base = std::string("family=S shape=") + std::to_string(shape_no) + " kind=" + KIND[kind] + " len=" + std::to_string(len) + " v=";
    Plan pl; bool planned = false;
    uint64_t done = 0;
    for (size_t k = 0; k < vals.size(); ++k) {
        uint32_t v = vals[k];
        if (g_only.empty() && (v % (uint32_t)njobs) != (uint32_t)job) continue;
        std::string kase;
        if (!g_only.empty()) { kase = base + std::to_string(v); if (kase != g_only) continue; }
        uint64_t my = g_idx++;
        if (skipped(my)) continue;
        if ((done & 63) == 0 || !g_only.empty()) { if (kase.empty()) kase = base + std::to_string(v); set_case(my, "C05:sweep", kase); }
        set_word(*root, kind, uint16_t(v));
        Mon::reset();
        Bytes w = root->serialize();
        if (!planned) { build_plan(layers_of(*root, w.size()), pl); planned = true; }
        size_t before = R.violations.size();
        g_fast_counts = done != 0;
        judge(*root, w, kase.empty() ? base + std::to_string(v) : kase, &pl);
        g_fast_counts = false;
        if (Mon::errors) R.violation(Mon::first, Mon::first_detail, base + std::to_string(v));
        (void)before;
        R.count("evaluations"); R.count("sweep_values");
        ++done;
        if ((done & 1023) == 0 && deadline_reached()) { R.flags["exhaustive"] = false; R.count("sweeps_cut_by_deadline"); return; }
    }
    if (job == 0 || !g_only.empty()) R.count("sweeps");
}

// family X: payload size ladder + structural ladders
static void family_x(int job, int njobs) {
    std::vector<Shape> sh = shapes();
    size_t no = 0;
    std::vector<size_t> sizes;
    for (size_t n = 0; n <= (A.thorough() ? 1600u : 140u); ++n) sizes.push_back(n);
    for (size_t n : {255, 256, 1471, 1472, 1473, 9000, 32767, 32768}) if (n > sizes.back()) sizes.push_back(n);
    for (size_t si = 0; si < sh.size(); ++si) {
        // RFC 4884: the length octet cannot announce more than 255 words; keep the shapes that use it inside what it can express
        bool rfc4884_shape = strstr(sh[si].name, "+ext") || strstr(sh[si].name, "+len");
        for (size_t n : sizes) {
            if (rfc4884_shape && n > 1000) continue;
            if (no++ % njobs != (size_t)job && g_only.empty()) continue;
            check_packet(sh[si].make(n), "family=X shape=" + std::to_string(si) + " payload=" + std::to_string(n));
        }
        // the largest packets of this shape that still fit 65535 bytes on the wire (larger ones are skipped by check_packet)
        if (!rfc4884_shape && (no++ % njobs == (size_t)job || !g_only.empty())) {
            std::unique_ptr<PDU> probe(sh[si].make(200));
            size_t overhead = probe->size() - 200;
            size_t n0 = 65535 - overhead - 8;
            for (size_t n : {n0 + 8, n0 + 7, n0 + 1, n0, n0 - 1})
                check_packet(sh[si].make(n), "family=X shape=" + std::to_string(si) + " payload=" + std::to_string(n));
        }
    }
    // ladders
    auto lad = [&](const std::string& name, PDU* p) { if (no++ % njobs == (size_t)job || !g_only.empty()) check_packet(p, "family=X ladder=" + name); else delete p; };
    int exttypes[] = {IPv6::HOP_BY_HOP, IPv6::DESTINATION_ROUTING_OPTIONS, IPv6::ROUTING};
    for (int t : exttypes)
        for (int d = 0; d <= 24; ++d) {
            lad("ipv6-ext type=" + std::to_string(t) + " data=" + std::to_string(d) + " /tcp", (eth() / ip6_ext({{t, d}}) / TCP(1, 2) / raw(5)).clone());
            lad("ipv6-ext type=" + std::to_string(t) + " data=" + std::to_string(d) + " /udp(odd)", (ip6_ext({{t, d}}) / UDP(1, 2) / raw(3)).clone());
            lad("ipv6-ext type=" + std::to_string(t) + " data=" + std::to_string(d) + " +rt6 /icmpv6", (eth() / ip6_ext({{t, d}, {IPv6::ROUTING, 6}}) / ICMPv6(ICMPv6::ECHO_REQUEST) / raw(4)).clone());
            lad("ipv6-ext hbh6+ type=" + std::to_string(t) + " data=" + std::to_string(d) + " (no payload)", (eth() / ip6_ext({{IPv6::HOP_BY_HOP, 6}, {t, d}})).clone());
        }
    lad("ipv6-ext frag /raw", (eth() / ip6_ext({{IPv6::FRAGMENT, 6}}) / raw(16)).clone());
    lad("ipv6-ext hbh6,frag /raw", (eth() / ip6_ext({{IPv6::HOP_BY_HOP, 6}, {IPv6::FRAGMENT, 6}}) / raw(16)).clone());
    for (int d = 0; d <= 38; ++d) {
        { TCP t(80, 1025); Bytes x = pattern(d, 0x31); t.add_option(TCP::option((TCP::OptionTypes)254, x.size(), x.data())); lad("tcp-option data=" + std::to_string(d) + " /ip", (eth() / ip4() / t / raw(3)).clone()); }
        if (d <= 37) { TCP t(80, 1025); Bytes x = pattern(d, 0x31); t.add_option(TCP::option(TCP::NOP)); t.add_option(TCP::option((TCP::OptionTypes)254, x.size(), x.data())); lad("tcp-option nop+data=" + std::to_string(d) + " /ipv6", (eth() / ip6() / t / raw(4)).clone()); }
        { IP i = ip4(); Bytes x = pattern(d, 0x31); i.add_option(IP::option(IP::option_identifier(0x9e), x.size(), x.data())); lad("ip-option data=" + std::to_string(d) + " /udp", (eth() / i / UDP(1, 2) / raw(3)).clone()); }
        if (d <= 37) { IP i = ip4(); Bytes x = pattern(d, 0x31); i.noop(); i.add_option(IP::option(IP::option_identifier(0x9e), x.size(), x.data())); lad("ip-option nop+data=" + std::to_string(d) + " /tcp", (i / TCP(1, 2) / raw(2)).clone()); }
    }
    for (int icv : {0, 4, 8, 12, 16, 20, 32, 64}) {
        { IPSecAH ah; ah.icv(pattern(icv)); lad("ah icv=" + std::to_string(icv) + " /ip/tcp", (eth() / ip4() / ah / TCP(1, 2) / raw(3)).clone()); }
        { IPSecAH ah; ah.icv(pattern(icv)); lad("ah icv=" + std::to_string(icv) + " /ipv6/udp", (eth() / ip6() / ah / UDP(1, 2) / raw(3)).clone()); }
        { IPSecAH ah; ah.icv(pattern(icv)); ah.next_header(0xfd); lad("ah icv=" + std::to_string(icv) + " /ip/raw", (eth() / ip4() / ah / raw(3)).clone()); }
    }
    // ICMP / ICMPv6 RFC 4884: original datagram sizes around the 4 / 8 byte rounding and the 128 byte minimum, with and without extension and length octet
    for (size_t n : {0, 1, 3, 4, 5, 7, 8, 9, 28, 123, 124, 125, 126, 127, 128, 129, 130, 131, 132, 133, 135, 136, 137, 200, 201, 202, 203, 204})
        for (int ext = 0; ext < 2; ++ext)
            for (int lf = 0; lf < 2; ++lf) {
                for (int type : {ICMP::DEST_UNREACHABLE, ICMP::TIME_EXCEEDED, ICMP::PARAM_PROBLEM})
                    lad("icmp type=" + std::to_string(type) + " ext=" + std::to_string(ext) + " lenfield=" + std::to_string(lf) + " orig=" + std::to_string(n), (eth() / ip4() / icmp_err(type, ext, lf) / raw(n)).clone());
                lad("icmpv6 ttl ext=" + std::to_string(ext) + " lenfield=" + std::to_string(lf) + " orig=" + std::to_string(n), (eth() / ip6() / icmp6_err(ext, lf) / raw(n)).clone());
            }
    // tags in front of every known child, through every tag-writing parent
    {
        auto children = [](int k) -> PDU* {
            switch (k) {
                case 0: return (ip4() / UDP(1, 2) / raw(3)).clone();
                case 1: return (ip6() / TCP(1, 2) / raw(3)).clone();
                case 2: return ARP("10.0.0.2", "10.0.0.1", MAC2, MAC1).clone();
                case 3: return (Dot1Q(77) / ip4() / UDP(1, 2)).clone();
                case 4: { PPPoE p; p.code(0x09); p.service_name("isp"); return p.clone(); }
                case 5: { PPPoE p; p.code(0); p.session_id(3); Bytes pr = {0x00, 0x21}; return (p / RawPDU(pr) / ip4() / UDP(1, 2)).clone(); }
                case 6: { MPLS m; m.label(99); return (m / ip4() / UDP(1, 2)).clone(); }
                case 7: { RSNEAPOL e; e.key_t(1); return e.clone(); }
                case 8: { RC4EAPOL e; e.key_length(5); e.key(pattern(5)); return e.clone(); }
                default: return 0;
            }
        };
        for (int k = 0; k < 9; ++k) {
            { EthernetII e = eth(); e.payload_type(0x1234); PDU* c = children(k); PDU* r = e.clone(); r->inner_pdu(c); lad("tag eth(type 0x1234)->child" + std::to_string(k), r); }
            { Dot1Q q(9); q.payload_type(0x1234); PDU* r = eth().clone(); PDU* qq = q.clone(); qq->inner_pdu(children(k)); r->inner_pdu(qq); lad("tag eth/dot1q->child" + std::to_string(k), r); }
            { SNAP sn; sn.eth_type(0x1234); PDU* r = Dot3(MAC2, MAC1).clone(); PDU* s2 = sn.clone(); s2->inner_pdu(children(k)); r->inner_pdu(s2); lad("tag dot3/snap->child" + std::to_string(k), r); }
            { SLL sl; sl.protocol(0x1234); PDU* r = sl.clone(); r->inner_pdu(children(k)); lad("tag sll->child" + std::to_string(k), r); }
        }
        auto ipchildren = [](int k) -> PDU* {
            switch (k) {
                case 0: return (TCP(1, 2) / raw(3)).clone();
                case 1: return (UDP(1, 2) / raw(3)).clone();
                case 2: return (ICMP(ICMP::ECHO_REQUEST) / raw(3)).clone();
                case 3: return (ICMPv6(ICMPv6::ECHO_REQUEST) / raw(3)).clone();
                case 4: return (IP("10.0.0.2", "10.0.0.1") / UDP(1, 2)).clone();
                case 5: return (ip6() / UDP(1, 2)).clone();
                case 6: { IPSecAH ah; ah.icv(pattern(12)); return (ah / TCP(1, 2)).clone(); }
                case 7: { IPSecESP esp; esp.spi(5); return (esp / raw(16)).clone(); }
                default: return 0;
            }
        };
        for (int k = 0; k < 8; ++k) {
            { IP i = ip4(); i.protocol(0xfd); PDU* r = eth().clone(); PDU* x = i.clone(); x->inner_pdu(ipchildren(k)); r->inner_pdu(x); lad("tag ip(proto fd)->child" + std::to_string(k), r); }
            { IPv6 i = ip6(); i.next_header(0xfd); PDU* r = eth().clone(); PDU* x = i.clone(); x->inner_pdu(ipchildren(k)); r->inner_pdu(x); lad("tag ipv6(nh fd)->child" + std::to_string(k), r); }
            { IPv6 i = ip6_ext({{IPv6::HOP_BY_HOP, 6}}); i.next_header(0xfd); PDU* r = eth().clone(); PDU* x = i.clone(); x->inner_pdu(ipchildren(k)); r->inner_pdu(x); lad("tag ipv6[hbh](nh fd)->child" + std::to_string(k), r); }
            { IPSecAH ah; ah.icv(pattern(12)); ah.next_header(0xfd); PDU* r = (eth() / ip4()).clone(); PDU* x = ah.clone(); x->inner_pdu(ipchildren(k)); r->inner_pdu()->inner_pdu(x); lad("tag ip/ah(nh fd)->child" + std::to_string(k), r); }
        }
        for (int k = 0; k < 3; ++k) {
            Loopback lo; lo.family(0x55);
            PDU* c = k == 0 ? (PDU*)(ip4() / UDP(1, 2)).clone() : k == 1 ? (PDU*)(ip6() / UDP(1, 2)).clone() : (PDU*)(LLC(0x42, 0x42) / STP()).clone();
            PDU* r = lo.clone(); r->inner_pdu(c); lad("tag loopback(0x55)->child" + std::to_string(k), r);
        }
        { LLC l(0x10, 0x20); lad("tag dot3/llc(10,20)->stp", (Dot3(MAC2, MAC1) / l / STP()).clone()); }
        { MPLS a, b2, c; a.label(1); b2.label(2); c.label(3); lad("tag eth/mpls/mpls/mpls/ip", (eth() / a / b2 / c / ip4() / UDP(1, 2)).clone()); }
        { MPLS a; a.label(1); lad("tag eth/mpls/raw", (eth() / a / raw(10)).clone()); }
        { MPLS a; a.label(1); lad("tag eth/mpls (nothing)", (eth() / a).clone()); }
    }
    // Ethernet minimum frame: every payload size around the 46-byte boundary, with raw and with self-delimiting payloads, with and without tags
    for (size_t n = 0; n <= 64; ++n) {
        lad("pad eth/raw(" + std::to_string(n) + ")", (eth() / raw(n ? n : 1)).clone());
        lad("pad eth/ip/udp/raw(" + std::to_string(n) + ")", (eth() / ip4() / UDP(1, 2) / raw(n)).clone());
        lad("pad eth/dot1q/raw(" + std::to_string(n) + ")", (eth() / Dot1Q(9) / raw(n ? n : 1)).clone());
        lad("pad eth/dot1q(nopad)/ip/udp/raw(" + std::to_string(n) + ")", (eth() / Dot1Q(9, false) / ip4() / UDP(1, 2) / raw(n)).clone());
        if (n <= 24) lad("pad eth/dot1q/dot1q/ip/raw(" + std::to_string(n) + ")", (eth() / Dot1Q(9) / Dot1Q(10) / ip4() / raw(n ? n : 1)).clone());
    }
    lad("pad eth (nothing)", eth().clone());
    lad("pad eth/arp", (eth() / ARP("10.0.0.2", "10.0.0.1", MAC2, MAC1)).clone());
    // EAPOL / Dot3 / PPPoE / RadioTap length fields with variable bodies
    for (size_t n : {0, 1, 5, 22, 23, 100, 255, 256}) {
        { RSNEAPOL e; e.key_t(1); e.key(pattern(n)); lad("eapol rsn key=" + std::to_string(n), (eth() / e).clone()); }
        { RC4EAPOL e; e.key(pattern(n)); lad("eapol rc4 key=" + std::to_string(n), (eth() / e).clone()); }
        lad("dot3/llc/raw(" + std::to_string(n) + ")", (Dot3(MAC2, MAC1) / LLC(0x10, 0x20) / raw(n ? n : 1)).clone());
        { PPPoE p; p.code(0x09); p.service_name(std::string(n, 'a')); p.host_uniq(pattern(4)); lad("pppoe discovery service_name=" + std::to_string(n), (eth() / p).clone()); }
        { PPPoE p; p.code(0); p.session_id(9); lad("pppoe session raw(" + std::to_string(n) + ")", (eth() / p / raw(n ? n : 1)).clone()); }
        { RadioTap rt = rtap(true); lad("radiotap[fcs]/data/raw(" + std::to_string(n) + ")", (rt / d11() / raw(n ? n : 1)).clone()); }
    }
}

// =============================================================================== family R: histories of serializations of ONE object
// Derived fields must be right in EVERY serialization: the first one (when IP::prepare_for_serialize() still has to look up the source
// address of an outermost IP whose source is 0.0.0.0), the second one (state written back into the object by the first), a clone's, a
// Packet copy's, the object wrapped into / detached from an enclosing packet, and after a setter changed an input of a derived field
// (addresses -> pseudo header, payload size -> lengths / padding, child class -> protocol tag).
static bool route_available() {
    static int st = -1;
    if (st < 0) {
        try { NetworkInterface i(IPv4Address("127.0.0.1")); st = i.addresses().ip_addr != IPv4Address() ? 1 : 0; }
        catch (std::exception&) { st = 0; }
    }
    return st == 1;
}
static bool is_link_root(PDU::PDUType t) {
    return t == PDU::ETHERNET_II || t == PDU::DOT3 || t == PDU::SLL || t == PDU::LOOPBACK || t == PDU::RADIOTAP;
}
// serialize + judge one output; returns false when the object cannot be serialized (counted)
static bool ser_judge(PDU& root, const std::string& kase, const std::string& step) {
    g_note = step;
    Mon::reset();
    if (root.size() == 0 || root.size() > 65535 || has_unserializable(root)) { R.count("repeat_steps_skipped"); g_note.clear(); return false; }
    // what was set below a parent must be what is on the wire (the routing-table hook is for an outermost IP only)
    std::vector<std::pair<const PDU*, uint32_t> > preset;
    bool root_unset = root.pdu_type() == PDU::IP && static_cast<IP&>(root).src_addr() == IPv4Address();
    for (PDU* p = &root; p; p = p->inner_pdu()) if (p->pdu_type() == PDU::IP && p->parent_pdu()) preset.push_back(std::make_pair((const PDU*)p, (uint32_t)static_cast<IP*>(p)->src_addr()));
    Bytes w;
    try { w = root.serialize(); }
    catch (std::exception&) { R.count("repeat_steps_skipped"); g_note.clear(); return false; }
    if (w.size() > 65535) { R.count("repeat_steps_skipped"); g_note.clear(); return false; }
    std::vector<OL> o = layers_of(root, w.size());
    for (auto& L : o) {
        if (L.t != PDU::IP || L.off + 16 > w.size()) continue;
        uint32_t wire; memcpy(&wire, w.data() + L.off + 12, 4);
        for (auto& pr : preset) if (pr.first == L.p) {
            R.count("ip_sources_below_a_parent_checked");
            if (pr.second != wire) R.violation("set:IP.src_addr-rewritten-below-a-parent", "source set to " + IPv4Address(pr.second).to_string() + ", on the wire " + IPv4Address(wire).to_string() + " | at step '" + step + "' | frame " + hex(w).substr(0, 300), kase);
        }
        if (L.p == &root && root_unset) R.count(wire ? "routed_source_filled_in" : "routed_source_left_zero");
    }
    R.count("evaluations"); R.count("repeat_serializations");
    Plan pl;
    build_plan(o, pl);
    judge(root, w, kase, &pl);
    if (Mon::errors) R.violation(Mon::first, Mon::first_detail + " | at step '" + step + "'", kase);
    g_note.clear();
    return true;
}

// order: 0 the object itself is serialized first; 1 a clone first; 2 a Packet copy first; 3 wrapped into an Ethernet frame first, then alone
static void history(PDU* rootp, const std::string& kase, int order) {
    std::unique_ptr<PDU> root(rootp);
    if (!g_only.empty() && kase != g_only) return;
    uint64_t my = g_idx++;
    if (skipped(my)) return;
    set_case(my, "C05:history", kase);
    R.count("histories");
    const bool link_root = is_link_root(root->pdu_type());
    auto wrapped = [&](const std::string& step) {
        if (link_root || (root->pdu_type() != PDU::IP && root->pdu_type() != PDU::IPv6)) return;
        std::unique_ptr<PDU> e(new EthernetII(eth())); e->inner_pdu(root->clone());
        ser_judge(*e, kase, step);
    };
    if (order == 1) { std::unique_ptr<PDU> c(root->clone()); ser_judge(*c, kase, "clone serialized before the original"); }
    if (order == 2) { Packet pk(*root); ser_judge(*pk.pdu(), kase, "Packet copy serialized before the original"); }
    if (order == 3) wrapped("wrapped in EthernetII before it was ever serialized alone");
    if (!ser_judge(*root, kase, "first serialize()")) return;
    ser_judge(*root, kase, "second serialize()");
    { std::unique_ptr<PDU> c(root->clone()); ser_judge(*c, kase, "clone of the serialized object"); ser_judge(*c, kase, "clone, second serialize()"); }
    { Packet pk(*root); ser_judge(*pk.pdu(), kase, "Packet copy"); }
    wrapped("wrapped in EthernetII after it was serialized alone");
    // detached: the network layer of a link-layer rooted packet serialized on its own (only when that needs no routing table, or lo's)
    if (link_root && root->inner_pdu() && (root->inner_pdu()->pdu_type() == PDU::IP || root->inner_pdu()->pdu_type() == PDU::IPv6)) {
        std::unique_ptr<PDU> d(root->inner_pdu()->clone());
        bool ok = true;
        if (d->pdu_type() == PDU::IP) { IP& i = static_cast<IP&>(*d); if (i.src_addr() == IPv4Address() && !(i.dst_addr() == IPv4Address("127.0.0.1") && route_available())) ok = false; }
        if (ok) { ser_judge(*d, kase, "network layer detached from its link layer, first serialize()"); ser_judge(*d, kase, "detached, second serialize()"); }
    }
    // --- setters that change an input of a derived field, each followed by a serialization
    bool any = false;
    for (PDU* p = root.get(); p; p = p->inner_pdu()) {
        if (p->pdu_type() == PDU::IP) { static_cast<IP*>(p)->src_addr("172.16.254.1"); any = true; }
        if (p->pdu_type() == PDU::IPv6) { static_cast<IPv6*>(p)->src_addr("fe80::ffff:1"); any = true; }
    }
    if (any) ser_judge(*root, kase, "after src_addr() on every IP / IPv6 layer");
    any = false;
    for (PDU* p = root.get(); p; p = p->inner_pdu()) {
        if (p->pdu_type() == PDU::IP) { static_cast<IP*>(p)->dst_addr("203.0.113.255"); any = true; }
        if (p->pdu_type() == PDU::IPv6) { static_cast<IPv6*>(p)->dst_addr("ff02::1:ff00:1"); any = true; }
    }
    if (any) ser_judge(*root, kase, "after dst_addr() on every IP / IPv6 layer");
    {   // payload grows by 3 bytes (odd <-> even, padding thresholds)
        PDU* last = root.get(); while (last->inner_pdu()) last = last->inner_pdu();
        if (last->pdu_type() == PDU::RAW) { Bytes& pl = static_cast<RawPDU*>(last)->payload(); pl.push_back(0x99); pl.push_back(0x01); pl.push_back(0xfe); }
        else last->inner_pdu(new RawPDU(pattern(3, 0x99)));
        ser_judge(*root, kase, "after the payload grew by 3 bytes");
    }
    {   // transport child swapped: TCP <-> UDP under the same IP / IPv6 (protocol tag, pseudo header protocol, header length)
        for (PDU* p = root.get(); p; p = p->inner_pdu()) {
            PDU* c = p->inner_pdu();
            if (!c || (p->pdu_type() != PDU::IP && p->pdu_type() != PDU::IPv6)) continue;
            if (c->pdu_type() != PDU::TCP && c->pdu_type() != PDU::UDP) continue;
            PDU* below = c->inner_pdu() ? c->inner_pdu()->clone() : 0;
            PDU* nc = c->pdu_type() == PDU::TCP ? static_cast<PDU*>(new UDP(4000, 53)) : static_cast<PDU*>(new TCP(443, 50000));
            if (below) nc->inner_pdu(below);
            p->inner_pdu(nc);
            ser_judge(*root, kase, "after the transport child was swapped (TCP <-> UDP)");
            break;
        }
    }
    {   // payload removed
        PDU* last = root.get(); while (last->inner_pdu()) last = last->inner_pdu();
        PDU* par = last->parent_pdu();
        if (last->pdu_type() == PDU::RAW && par && par->pdu_type() != PDU::PPPOE) { par->inner_pdu(0); ser_judge(*root, kase, "after the payload was removed"); }
    }
    ser_judge(*root, kase, "last serialize() again");
    // an outermost IP sent back to 'no source': the lookup has to happen again, before the children are serialized
    if (root->pdu_type() == PDU::IP && route_available() && static_cast<IP&>(*root).dst_addr() != IPv4Address()) {
        IP& i = static_cast<IP&>(*root);
        i.dst_addr("127.0.0.1"); i.src_addr(IPv4Address());
        ser_judge(*root, kase, "after src_addr(0.0.0.0) with destination 127.0.0.1: first serialize()");
        ser_judge(*root, kase, "after src_addr(0.0.0.0): second serialize()");
    }
}

static IP ip_unset(const char* dst = "127.0.0.1") { return IP(dst); }
static IP ip_unset_opts() { IP i("127.0.0.1"); i.noop(); i.stream_identifier(0x1234); return i; }

static void family_r(int job, int njobs) {
    size_t no = 0;
    auto run = [&](const std::string& name, PDU* p, int orders) {
        for (int order = 0; order < orders; ++order) {
            PDU* q = order + 1 < orders ? p->clone() : p;
            if (no++ % njobs == (size_t)job || !g_only.empty()) history(q, "family=R base=" + name + " order=" + std::to_string(order), order);
            else delete q;
        }
    };
    // (a) outermost IP without source, destination 127.0.0.1 (lo is the one interface every sandbox has), and the same below link layers
    if (!route_available()) R.count("skipped_no_route");
    else {
        if (job == 0) R.count("route_to_127.0.0.1_available");
        for (size_t n : {0, 1, 7, 8, 45}) {
            std::string sz = "(" + std::to_string(n) + ")";
            run("routed ip/tcp/raw" + sz, (ip_unset() / TCP(80, 40000) / raw(n)).clone(), 4);
            run("routed ip/udp/raw" + sz, (ip_unset() / UDP(53, 4000) / raw(n)).clone(), 4);
            run("routed ip/icmp-echo/raw" + sz, (ip_unset() / ICMP(ICMP::ECHO_REQUEST) / raw(n)).clone(), 4);
            run("routed ip/ip(src set)/tcp/raw" + sz, (ip_unset() / IP("10.0.0.2", "10.0.0.1") / TCP(1, 2) / raw(n)).clone(), 4);
            run("routed ip/ip(no src)/tcp/raw" + sz, (ip_unset() / IP("10.0.0.2") / TCP(1, 2) / raw(n)).clone(), 4);
            run("routed ip/ipv6/udp/raw" + sz, (ip_unset() / ip6() / UDP(1, 2) / raw(n)).clone(), 4);
            run("routed ip[opts]/tcp/raw" + sz, (ip_unset_opts() / TCP(80, 40000) / raw(n)).clone(), 4);
            run("routed ip[opts]/udp/raw" + sz, (ip_unset_opts() / UDP(7, 7) / raw(n)).clone(), 4);
            run("routed ip/tcp[opts]/raw" + sz, (ip_unset() / tcp_opts() / raw(n)).clone(), 4);
            run("routed ip/ah/udp/raw" + sz, (ip_unset() / IPSecAH() / UDP(1, 2) / raw(n)).clone(), 4);
        }
        run("routed ip/tcp", (ip_unset() / TCP(80, 40000)).clone(), 4);
        run("routed ip/udp", (ip_unset() / UDP(1, 2)).clone(), 4);
        run("routed ip (nothing)", ip_unset().clone(), 4);
        run("routed ip/icmp-unreach/ip/udp", (ip_unset() / ICMP(ICMP::DEST_UNREACHABLE) / IP("10.0.0.2", "10.0.0.1") / UDP(53, 1000) / raw(8)).clone(), 4);
        run("routed ip/icmp-ttl+ext/raw(40)", (ip_unset() / icmp_err(ICMP::TIME_EXCEEDED, true, false) / raw(40)).clone(), 4);
    }
    // below a link layer the hook must not fire whether or not a route exists: the source stays what was set (0.0.0.0)
    for (size_t n : {0, 7, 8}) {
        std::string sz = "(" + std::to_string(n) + ")";
        run("no-src eth/ip/tcp/raw" + sz, (eth() / ip_unset() / TCP(80, 40000) / raw(n)).clone(), 1);
        run("no-src eth/ip/udp/raw" + sz, (eth() / ip_unset() / UDP(53, 4000) / raw(n)).clone(), 1);
        run("no-src eth/dot1q/ip/udp/raw" + sz, (eth() / Dot1Q(9) / ip_unset() / UDP(53, 4000) / raw(n)).clone(), 1);
        run("no-src sll/ip/tcp/raw" + sz, (SLL() / ip_unset() / TCP(1, 2) / raw(n)).clone(), 1);
        run("no-src loopback/ip/udp/raw" + sz, (Loopback() / ip_unset() / UDP(1, 2) / raw(n)).clone(), 1);
        run("no-src eth/ip[opts]/icmp/raw" + sz, (eth() / ip_unset_opts() / ICMP(ICMP::ECHO_REQUEST) / raw(n)).clone(), 1);
        run("no-src eth/ip(src set)/ip(no src)/tcp/raw" + sz, (eth() / ip4() / ip_unset("10.9.9.9") / TCP(1, 2) / raw(n)).clone(), 1);
    }
    // ICMP errors whose RFC 4884 octet was requested / derived once and whose original datagram then changes or is absent
    for (int type : {ICMP::DEST_UNREACHABLE, ICMP::TIME_EXCEEDED, ICMP::PARAM_PROBLEM})
        for (int lf = 0; lf < 2; ++lf) {
            run("icmp type=" + std::to_string(type) + " lenfield=" + std::to_string(lf) + " without original datagram", (eth() / ip4() / icmp_err(type, false, lf)).clone(), 1);
            run("icmp type=" + std::to_string(type) + " lenfield=" + std::to_string(lf) + " +ext without original datagram", (eth() / ip4() / icmp_err(type, true, lf)).clone(), 1);
            for (size_t n : {4, 8, 136}) run("icmp type=" + std::to_string(type) + " lenfield=" + std::to_string(lf) + " orig=" + std::to_string(n), (eth() / ip4() / icmp_err(type, false, lf) / raw(n)).clone(), 1);
        }
    for (int lf = 0; lf < 2; ++lf) {
        run("icmpv6 ttl lenfield=" + std::to_string(lf) + " without original datagram", (eth() / ip6() / icmp6_err(false, lf)).clone(), 1);
        run("icmpv6 ttl lenfield=" + std::to_string(lf) + " +ext without original datagram", (eth() / ip6() / icmp6_err(true, lf)).clone(), 1);
        for (size_t n : {8, 16, 136}) run("icmpv6 ttl lenfield=" + std::to_string(lf) + " orig=" + std::to_string(n), (eth() / ip6() / icmp6_err(false, lf) / raw(n)).clone(), 1);
    }
    // (b) + (c) every stack shape and every grammar packet through the same history
    std::vector<Shape> sh = shapes();
    std::vector<size_t> sizes = {0, 7, 8, 133};
    if (A.thorough()) { sizes.push_back(1); sizes.push_back(45); sizes.push_back(46); sizes.push_back(600); }
    for (size_t si = 0; si < sh.size(); ++si)
        for (size_t n : sizes) run("shape=" + std::to_string(si) + " payload=" + std::to_string(n), sh[si].make(n), A.thorough() ? 3 : 1);
    auto g = grammar(A.thorough() ? 1000 : 3);
    for (size_t i = 0; i < g.size(); ++i) {
        PDU* p = g[i].pdu.release();
        if (needs_environment(*p)) { delete p; continue; }
        run("grammar packet=" + std::to_string(i), p, 1);
    }
    // first serialization of FRESH routed objects over a payload word sweep (every value a new object: the lookup happens every time)
    if (route_available()) {
        uint32_t stride = A.thorough() && !g_reduced ? 1 : 251;
        for (int proto = 0; proto < 2; ++proto)
            for (uint32_t v = 0; v < 65536; v += stride) {
                if (no++ % njobs != (size_t)job && g_only.empty()) continue;
                std::string kase = std::string("family=R fresh-routed ") + (proto ? "udp" : "tcp") + " v=" + std::to_string(v);
                if (!g_only.empty() && kase != g_only) continue;
                uint64_t my = g_idx++;
                if (skipped(my)) continue;
                set_case(my, "C05:history", kase);
                Bytes pl = pattern(7, 0x41); pl[5] = uint8_t(v >> 8); pl[6] = uint8_t(v);
                std::unique_ptr<PDU> p(proto ? (ip_unset() / UDP(53, 4000) / RawPDU(pl)).clone() : (ip_unset() / TCP(80, 40000) / RawPDU(pl)).clone());
                g_fast_counts = true;
                ser_judge(*p, kase, "first serialize() of a fresh object");
                g_fast_counts = false;
                R.count("fresh_routed_first_serializations");
            }
    }
}

// family V: a field the harness sets swept through its whole domain; the libpcap predicates for that field are compiled per value
static void eval_once(int dlt, const std::string& expr, bool expect, const char* kind, const Bytes& w, const std::string& kase) {
    pcap_t*& pc = g_dead[dlt];
    if (!pc) pc = pcap_open_dead(dlt, 65535);
    bpf_program bp;
    if (pcap_compile(pc, &bp, expr.c_str(), 1, PCAP_NETMASK_UNKNOWN) != 0) { R.violation("harness:pcap-compile", std::string(pcap_geterr(pc)) + " in: " + expr, kase); return; }
    pcap_pkthdr h; memset(&h, 0, sizeof h); h.caplen = h.len = (bpf_u_int32)w.size();
    bool m = pcap_offline_filter(&bp, &h, w.data()) != 0;
    pcap_freecode(&bp);
    R.count(expect ? "pcap_predicates_value_set" : "pcap_predicates_other_value");
    if (m != expect)
        R.violation(std::string("pcap:") + (expect ? "no-match-for-value-set:" : "match-for-other-value:") + kind,
                    "filter '" + expr + "' on DLT " + std::to_string(dlt) + (m ? " matches" : " does not match") + " frame " + hex(w).substr(0, 400), kase);
}
static void family_v(int job, int njobs) {
    struct VS { const char* name; int lo, hi; std::function<PDU*(int)> make; std::function<std::string(int)> pred; const char* kind; };
    std::vector<VS> vs;
    vs.push_back(VS{"tcp-sport eth/ip/tcp", 0, 65535, [](int v) -> PDU* { return (eth() / ip4() / TCP(80, (uint16_t)v) / raw(3)).clone(); }, [](int v) { return "tcp src port " + std::to_string(v); }, "tcp src port"});
    vs.push_back(VS{"tcp-dport eth/ipv6/tcp", 0, 65535, [](int v) -> PDU* { return (eth() / ip6() / TCP((uint16_t)v, 9) / raw(4)).clone(); }, [](int v) { return "tcp dst port " + std::to_string(v); }, "tcp dst port/6"});
    vs.push_back(VS{"udp-dport eth/dot1q/ip/udp", 0, 65535, [](int v) -> PDU* { return (eth() / Dot1Q(7) / ip4() / UDP((uint16_t)v, 9) / raw(3)).clone(); }, [](int v) { return "vlan 7 and udp dst port " + std::to_string(v); }, "udp dst port"});
    vs.push_back(VS{"udp-sport ipv6/udp", 0, 65535, [](int v) -> PDU* { return (ip6() / UDP(9, (uint16_t)v) / raw(2)).clone(); }, [](int v) { return "udp src port " + std::to_string(v); }, "udp src port/6"});
    vs.push_back(VS{"vlan-id eth/dot1q/ip/udp", 0, 4095, [](int v) -> PDU* { return (eth() / Dot1Q((uint16_t)v) / ip4() / UDP(1, 2) / raw(3)).clone(); }, [](int v) { return "vlan " + std::to_string(v); }, "vlan"});
    vs.push_back(VS{"vlan-id inner eth/dot1q/dot1q/ipv6/tcp", 0, 4095, [](int v) -> PDU* { return (eth() / Dot1Q(9) / Dot1Q((uint16_t)v) / ip6() / TCP(1, 2)).clone(); }, [](int v) { return "vlan 9 and vlan " + std::to_string(v); }, "vlan"});
    vs.push_back(VS{"pppoe-session-id", 0, 65535, [](int v) -> PDU* { PPPoE p; p.code(0); p.session_id((uint16_t)v); Bytes pr = {0x00, 0x21}; return (eth() / p / RawPDU(pr) / ip4() / UDP(1, 2)).clone(); }, [](int v) { return "pppoes " + std::to_string(v); }, "pppoes"});
    vs.push_back(VS{"icmp-type", 0, 255, [](int v) -> PDU* { ICMP c; c.type((ICMP::Flags)v); return (eth() / ip4() / c).clone(); }, [](int v) { return "icmp[icmptype] = " + std::to_string(v); }, "icmp[icmptype]"});
    vs.push_back(VS{"ip-ttl", 0, 255, [](int v) -> PDU* { IP i = ip4(); i.ttl((uint8_t)v); return (eth() / i / UDP(1, 2)).clone(); }, [](int v) { return "ip[8] = " + std::to_string(v); }, "ip[8]"});
    vs.push_back(VS{"ip-last-octet", 0, 255, [](int v) -> PDU* { IP i(IPv4Address("10.1.2." + std::to_string(v)), IPv4Address("10.9.8." + std::to_string(255 - v))); return (eth() / i / TCP(1, 2)).clone(); }, [](int v) { return "ip dst 10.1.2." + std::to_string(v) + " and ip src 10.9.8." + std::to_string(255 - v); }, "ip src+dst"});
    vs.push_back(VS{"mpls-label(stride 251 + top)", 0, (1 << 20) - 1, [](int v) -> PDU* { MPLS m; m.label((uint32_t)v); return (eth() / m / ip4() / UDP(1, 2)).clone(); }, [](int v) { return "mpls " + std::to_string(v); }, "mpls"});
    size_t no = 0;
    for (size_t k = 0; k < vs.size(); ++k) {
        const VS& S = vs[k];
        bool strided = S.hi > 65535;
        int stride = strided ? 251 : ((S.hi > 4095 && !A.thorough()) ? 17 : 1);
        if (g_reduced && S.hi > 255) stride *= 31;
        for (int v = S.lo; v <= S.hi; v += stride) {
            if (no++ % njobs != (size_t)job && g_only.empty()) continue;
            std::string kase = "family=V sweep=" + std::to_string(k) + " v=" + std::to_string(v);
            if (!g_only.empty() && kase != g_only) continue;
            uint64_t my = g_idx++;
            if (skipped(my)) continue;
            set_case(my, "C05:field-sweep", kase);
            Mon::reset();
            std::unique_ptr<PDU> p(S.make(v));
            Bytes w = p->serialize();
            g_fast_counts = true;
            judge(*p, w, kase, 0);
            g_fast_counts = false;
            int dlt = p->pdu_type() == PDU::ETHERNET_II ? DLT_EN10MB : DLT_RAW;
            int other = v ^ 1; if (other > S.hi) other = v - 1;
            eval_once(dlt, S.pred(v), true, S.kind, w, kase);
            eval_once(dlt, S.pred(other), false, S.kind, w, kase);
            if (Mon::errors) R.violation(Mon::first, Mon::first_detail, kase);
            R.count("evaluations"); R.count("field_sweep_values");
            if ((no & 1023) == 0 && deadline_reached()) { R.flags["exhaustive"] = false; return; }
        }
    }
}

static void family_s(int job, int njobs) {
    std::vector<Shape> sh = shapes();
    for (size_t si = 0; si < sh.size(); ++si)
        for (int kind = 0; kind < (A.thorough() ? 6 : 4); ++kind) {
            if (!g_only.empty()) {
                std::string pre = std::string("family=S shape=") + std::to_string(si) + " kind=" + KIND[kind] + " ";
                if (g_only.compare(0, pre.size(), pre) != 0) continue;
            }
            sweep(sh[si], si, kind, job, njobs);
            if (deadline_reached()) { R.flags["exhaustive"] = false; return; }
        }
}

// family G
static void family_g(int job, int njobs) {
    auto g = grammar(A.thorough() ? 1000 : 3);
    if (job == 0) R.count("grammar_packets", g.size());
    for (size_t i = job; i < g.size(); i += njobs) {
        std::string nm = g[i].name; for (char& c : nm) if (c == ' ') c = '_';
        check_packet(g[i].pdu.release(), "family=G packet=" + std::to_string(i) + " name=" + nm);
    }
    // again with a 5-byte and a 6-byte payload under the innermost layer when it has none (odd / even checksum input)
    for (int extra = 5; extra <= 6; ++extra) {
        auto g2 = grammar(A.thorough() ? 1000 : 3);
        for (size_t i = job; i < g2.size(); i += njobs) {
            PDU* last = g2[i].pdu.get();
            while (last->inner_pdu()) last = last->inner_pdu();
            if (last->pdu_type() == PDU::RAW) continue;
            last->inner_pdu(new RawPDU(pattern(extra, 0x77)));
            check_packet(g2[i].pdu.release(), "family=G+payload" + std::to_string(extra) + " packet=" + std::to_string(i));
        }
    }
}

// family P: wire seeds parsed and re-serialized
static void family_p(int job, int njobs) {
    auto g = grammar(A.thorough() ? 1000 : 3);
    auto corpus = seed_corpus(g);
    size_t no = 0;
    for (auto& ep : entry_points()) {
        if (!ep.serializable) continue;
        auto it = corpus.find(ep.name);
        if (it == corpus.end()) continue;
        for (size_t k = 0; k < it->second.size(); ++k) {
            if (no++ % njobs != (size_t)job && g_only.empty()) continue;
            const Bytes& s = it->second[k].bytes;
            std::string kase = "family=P entry=" + ep.name + " hex=" + (s.empty() ? std::string("-") : hex(s));
            if (!g_only.empty() && kase != g_only) continue;
            set_case(g_idx, "C05:parse", kase);
            PDU* p = 0;
            uint8_t* buf = (uint8_t*)malloc(s.size() ? s.size() : 1);
            if (!s.empty()) memcpy(buf, s.data(), s.size());
            try { p = ep.fn(buf, (uint32_t)s.size()); } catch (std::exception&) { p = 0; }
            free(buf);
            if (!p) { R.count("seeds_rejected_by_parser"); continue; }
            R.count("seeds_parsed");
            check_packet(p, kase, "C05:parsed");
        }
    }
}

int main(int argc, char** argv) {
    std::vector<char*> av;
    for (int i = 0; i < argc; ++i) { if (std::string(argv[i]) == "--reduced") g_reduced = true; else av.push_back(argv[i]); }
    const int NJ = 32;
    auto body = [&](int job) {
        family_g(job, NJ);
        family_x(job, NJ);
        family_p(job, NJ);
        family_v(job, NJ);
        family_r(job, NJ);
        family_s(job, NJ);
        if (job == 0) {
            // samples: what a case looks like
            std::unique_ptr<PDU> p((eth() / Dot1Q(100) / ip_opts() / UDP(53, 4000) / raw(7)).clone());
            Bytes w = p->serialize();
            std::vector<ref::Layer> fr = ref::dissect(w.data(), w.size(), ref::P_ETH);
            Plan pl; build_plan(layers_of(*p, w.size()), pl);
            std::string preds; for (size_t i = 0; i < pl.preds.size() && i < 8; ++i) preds += (pl.preds[i].expect ? "+ " : "- ") + pl.preds[i].expr + "; ";
            R.sample("{\"packet\":\"eth/dot1q/ip[nop,sid]/udp/raw(7)\",\"wire\":" + jstr(hex(w)) + ",\"dissected\":" + jstr(ref::sequence(fr)) + ",\"first_predicates\":" + jstr(preds) + "}");
            R.sample(jstr("family=S shape=1 kind=payload-odd len=7 v=<0..65535>: eth/ip/udp/raw(7) with bytes 5,6 of the payload swept; every value: IPv4 header checksum, UDP length, UDP checksum over own pseudo header, 60-byte zero padding, 17 pcap predicates"));
        }
    };
    return run_main((int)av.size(), av.data(), NJ, NJ, body,
        [&](const std::string& kase) -> int {
            g_only = kase;
            for (int t = 0; t < 2; ++t) {
                A.tier = t ? "thorough" : "quick";
                if (kase.compare(0, 8, "family=G") == 0) family_g(0, 1);
                else if (kase.compare(0, 8, "family=X") == 0) family_x(0, 1);
                else if (kase.compare(0, 8, "family=P") == 0) family_p(0, 1);
                else if (kase.compare(0, 8, "family=S") == 0) family_s(0, 1);
                else if (kase.compare(0, 8, "family=V") == 0) family_v(0, 1);
                else if (kase.compare(0, 8, "family=R") == 0) family_r(0, 1);
                for (auto& v : R.violations) printf("violation reproduced: %s | %s\n", v.first.c_str(), v.second.detail.c_str());
                if (!R.violations.empty()) return 1;
            }
            printf("no violation for this case\n");
            return 0;
        });
}
