// C02 part (i): serialization of packets built through the public API, under the cross-layer write monitor.
//   family G : every grammar packet (hand-written stacks + generated (class, setter, sample) variants)
//   family P : every ordered pair of generated setters applied to one default object of each class
//   family H : add / remove / add-again histories (length <= 3) on every option-carrying class
//   family N : ONE add operation repeated n = 1..300 times (counters and cached sizes crossing 255/256, 8-bit and 16-bit carries)
#include "entry.hpp"
#include "sermon.hpp"
#include "explore.hpp"

using namespace mc;
using namespace Tins;

struct SetterDesc { std::string cls, name; PDU* (*make)(); bool (*apply)(PDU&, int); int ns; };

template <class Q> PDU* make_q() { return make_default((Q*)0); }

static std::vector<SetterDesc> setter_table() {
    std::vector<SetterDesc> t;
#define API_PAIR(Q, T, N, A, R) { typedef decltype(setter_arg(&Q::N)) Arg; int ns = nsamples<Arg>(); \
    if (ns) t.push_back(SetterDesc{#T, #N, &make_q<Q>, [](PDU& p, int k) -> bool { \
        try { static_cast<Q&>(p).N(sample<Arg>(k)); return true; } catch (std::exception& e_) { if (!mc::tins_exc(e_)) throw; return false; } }, ns}); }
#include "api.inc"
#undef API_PAIR
    return t;
}

static uint64_t g_idx = 0;
static std::string g_only;   // replay: execute only this case

static void check_packet(PDU* root, const std::string& kase) {
    std::unique_ptr<PDU> holder(root);
    if (!g_only.empty() && kase != g_only) return;
    uint64_t my = g_idx++;
    if (skipped(my)) return;
    set_case(my, "C02:built", kase);
    Mon::reset();
    if (needs_environment(*root)) { R.count("skipped_env"); return; }
    SerResult r = checked_serialize(*root);
    R.count("evaluations");
    uint64_t st = 0xcbf29ce484222325ULL;
    for (const PDU* q = root; q; q = q->inner_pdu()) { uint32_t v[3] = {(uint32_t)q->pdu_type(), q->header_size(), q->trailer_size()}; st = fnv(v, sizeof v, st); }
    R.dist("distinct_nontrivial", st);
    std::string sig = r.sig, detail = r.detail;
    if (Mon::errors) { sig = Mon::first; detail = Mon::first_detail; }
    if (!sig.empty()) R.violation(sig, detail, kase);
}

// ---- family H: raw option histories
struct Shape { int type; int len; };
// an option with l >= 0 data bytes, or with -l data bytes and an advertised length field 8 larger than the data
template <class Opt, class T> Opt make_opt(T type, int l, const Bytes& data) { return l >= 0 ? Opt(type, (size_t)l, data.data()) : Opt(type, (size_t)(-l + 8), data.data(), data.data() + (-l)); }
template <class Q, class AddFn, class RemFn>
static void histories(const char* cname, const std::vector<int>& types, AddFn add, RemFn rem, int depth) {
    std::vector<int> lens = {0, 3, 9, -4};      // negative: |len| data bytes with a SPOOFED length field (|len| + 8), see make_opt
    // ops: add(type, len) for each type x len; remove(type)
    struct Op { bool is_add; int type; int len; };
    std::vector<Op> ops;
    for (int t : types) for (int l : lens) ops.push_back(Op{true, t, l});
    for (int t : types) ops.push_back(Op{false, t, 0});
    std::vector<int> idx(depth, 0);
    for (int d = 1; d <= depth; ++d) {
        std::vector<int> cur(d, 0);
        while (true) {
            std::string name = std::string("family=H class=") + cname + " ops=";
            std::unique_ptr<PDU> o(make_default((Q*)0));
            Q& q = static_cast<Q&>(*o);
            bool ok = true;
            for (int i = 0; i < d && ok; ++i) {
                const Op& op = ops[cur[i]];
                name += (op.is_add ? "add" : "rem") + std::to_string(op.type) + "." + std::to_string(op.len) + ",";
                try { if (op.is_add) add(q, op.type, op.len); else rem(q, op.type); }
                catch (std::exception& e_) { if (!mc::tins_exc(e_)) throw; ok = false; }
            }
            if (ok) { PDU* raw = o.release(); PDU* top = wrap(raw); if (top->pdu_type() != PDU::RAW && raw->inner_pdu() == 0 && raw->pdu_type() != PDU::DHCP) { }
                      check_packet(top, name); R.count("histories"); }
            int i = d - 1;
            while (i >= 0 && ++cur[i] == (int)ops.size()) { cur[i] = 0; --i; }
            if (i < 0) break;
        }
    }
}

// ---- family N: one add operation applied n times, serialized after every step (cached option sizes, element counters and length
// octets crossing 255/256/65535). Building stops where the protocol's own limit is reached: a header that no longer fits its length field
// (TCP/IP 60 bytes, PPPoE payload 65535) is not a packet, and an add call may refuse (any exception) - what was built before must serialize.
template <class Q, class AddFn>
static void repetitions(const char* cname, const std::vector<int>& types, const std::vector<int>& lens, AddFn add, uint32_t header_limit, int nmax, uint32_t base = 0, uint32_t ovh = 0) {
    for (int t : types) for (int l : lens) {
        std::unique_ptr<PDU> o(make_default((Q*)0));
        for (int n = 1; n <= nmax; ++n) {
            Q& q = static_cast<Q&>(*o);
            try { add(q, t, l); } catch (std::exception&) { R.count("repetition_add_refused"); break; }
            // the limit is computed here, not read from the object: a cached size that wraps (PPPoE keeps a 16-bit tag size) must not hide it
            if (header_limit && (q.header_size() > header_limit || base + (uint64_t)n * (uint32_t)(l + ovh) > header_limit)) { R.count("repetition_stopped_at_protocol_limit"); break; }
            std::string name = std::string("family=N class=") + cname + " type=" + std::to_string(t) + " len=" + std::to_string(l) + " n=" + std::to_string(n);
            if (!g_only.empty() && name != g_only) continue;
            PDU* top = wrap(o->clone());
            PDU* last = top; while (last->inner_pdu()) last = last->inner_pdu();
            if (last->pdu_type() != PDU::RAW) last->inner_pdu(new RawPDU(pattern(3, 0x44)));
            check_packet(top, name); R.count("repetition_steps");
        }
    }
}

int main(int argc, char** argv) {
    const int NJ = 32;
    auto body = [&](int job) {
            bool th = A.thorough();
            // ---- family G
            auto g = grammar(th ? 1000 : 3);
            if (job == 0) R.count("grammar_packets", g.size());
            for (size_t i = job; i < g.size(); i += NJ) {
                std::string nm = "family=G packet=" + std::to_string(i) + " name=" + g[i].name;
                for (char& c : nm) if (c == ' ' && &c > &nm[18 + std::to_string(i).size()]) c = '_';
                check_packet(g[i].pdu.release(), nm);
                // with a payload appended to the innermost layer (cross-layer overwrite needs something to overwrite)
            }
            // every grammar packet again with a 5-byte payload under the innermost layer when it has none
            auto g2 = grammar(th ? 1000 : 3);
            for (size_t i = job; i < g2.size(); i += NJ) {
                PDU* last = g2[i].pdu.get();
                while (last->inner_pdu()) last = last->inner_pdu();
                if (last->pdu_type() == PDU::RAW) continue;
                last->inner_pdu(new RawPDU(pattern(5, 0x77)));
                check_packet(g2[i].pdu.release(), "family=G+payload packet=" + std::to_string(i));
            }
            // ---- family P: ordered pairs of setters of the same class
            auto st = setter_table();
            if (job == 0) R.count("setters", st.size());
            size_t pairno = 0;
            for (size_t a = 0; a < st.size(); ++a)
                for (size_t b = 0; b < st.size(); ++b) {
                    if (st[a].cls != st[b].cls) continue;
                    if (pairno++ % NJ != (size_t)job) continue;
                    int ka_max = th ? std::min(st[a].ns, 3) : 1, kb_max = th ? std::min(st[b].ns, 3) : 1;
                    // the SAME setter twice: every ordered pair of its samples (a cached size that is only updated for some values)
                    if (a == b) ka_max = kb_max = std::min(st[a].ns, th ? 12 : 8);
                    for (int ka = 0; ka < ka_max; ++ka)
                        for (int kb = 0; kb < kb_max; ++kb) {
                            PDU* o = st[a].make();
                            if (!o) continue;
                            std::string pname = "family=P class=" + st[a].cls + " a=" + st[a].name + "#" + std::to_string(ka) + " b=" + st[b].name + "#" + std::to_string(kb);
                            if (!g_only.empty() && pname != g_only) { delete o; continue; }
                            if (skipped(g_idx)) { g_idx++; delete o; continue; }
                            set_case(g_idx, "C02:build", pname);
                            if (!st[a].apply(*o, ka) || !st[b].apply(*o, kb)) { delete o; continue; }
                            // an IPv4 / TCP header has a 4-bit length field: more than 40 bytes of options is not a packet
                            if ((st[a].cls == "IP" || st[a].cls == "TCP") && o->header_size() > 60) { R.count("pairs_beyond_wire_limits"); delete o; continue; }
                            PDU* top = wrap(o);
                            PDU* last = top; while (last->inner_pdu()) last = last->inner_pdu();
                            if (last->pdu_type() != PDU::RAW) last->inner_pdu(new RawPDU(pattern(3, 0x33)));
                            check_packet(top, pname);
                            R.count("setter_pairs");
                        }
                    if (deadline_reached()) { R.flags["exhaustive"] = false; return; }
                }
            // ---- family H (dealt by class over jobs 0..6)
            int depth = 3;
            Bytes data = pattern(9, 0x61);
            if (job == 0) histories<TCP>("TCP", {2, 34, 254}, [&](TCP& q, int t, int l) { q.add_option(make_opt<TCP::option>((TCP::OptionTypes)t, l, data)); }, [](TCP& q, int t) { q.remove_option((TCP::OptionTypes)t); }, depth);
            if (job == 1) histories<IP>("IP", {0x88, 0x07, 0x94}, [&](IP& q, int t, int l) { q.add_option(make_opt<IP::option>(IP::option_identifier((uint8_t)t), l, data)); }, [](IP& q, int t) { q.remove_option(IP::option_identifier((uint8_t)t)); }, depth);
            if (job == 2) histories<DHCP>("DHCP", {53, 12, 0, 255}, [&](DHCP& q, int t, int l) { q.add_option(make_opt<DHCP::option>((uint8_t)t, l, data)); }, [](DHCP& q, int t) { q.remove_option((DHCP::OptionTypes)t); }, depth);
            if (job == 3) histories<DHCPv6>("DHCPv6", {1, 8, 17}, [&](DHCPv6& q, int t, int l) { q.add_option(make_opt<DHCPv6::option>((uint16_t)t, l, data)); }, [](DHCPv6& q, int t) { q.remove_option((DHCPv6::OptionTypes)t); }, depth);
            if (job == 4) histories<ICMPv6>("ICMPv6", {1, 5, 200}, [&](ICMPv6& q, int t, int l) { q.add_option(make_opt<ICMPv6::option>((uint8_t)t, l, data)); }, [](ICMPv6& q, int t) { q.remove_option((ICMPv6::OptionTypes)t); }, depth);
            if (job == 5) histories<Dot11Beacon>("Dot11Beacon", {0, 3, 221}, [&](Dot11Beacon& q, int t, int l) { q.add_option(make_opt<Dot11::option>((uint8_t)t, l, data)); }, [](Dot11Beacon& q, int t) { q.remove_option((Dot11::OptionTypes)t); }, depth);
            if (job == 6) histories<PPPoE>("PPPoE", {0x0101, 0x0103}, [&](PPPoE& q, int t, int l) { q.add_tag(make_opt<PPPoE::tag>((PPPoE::TagTypes)t, l, data)); }, [](PPPoE&, int) {}, depth);
            if (job == 7) histories<RTP>("RTP", {1, 2}, [&](RTP& q, int t, int l) { if (l == 0 || l < 0) q.add_csrc_id(t); else if (l == 3) { q.extension_bit(1); q.add_extension_data(t); } else q.padding_size(t); },
                                            [](RTP& q, int t) { q.remove_csrc_id(t); q.remove_extension_data(t); }, depth);
            // ---- family N (dealt by class over jobs 8..17)
            const int NMAX = th ? 700 : 300;
            Bytes big = pattern(255, 0x21);
            if (job == 8) repetitions<TCP>("TCP", {2, 34}, {0, 2}, [&](TCP& q, int t, int l) { q.add_option(TCP::option((TCP::OptionTypes)t, (size_t)l, big.data())); }, 60, NMAX, 20, 2);
            if (job == 9) repetitions<IP>("IP", {0x88, 0x07}, {0, 2}, [&](IP& q, int t, int l) { q.add_option(IP::option(IP::option_identifier((uint8_t)t), (size_t)l, big.data())); }, 60, NMAX, 20, 2);
            if (job == 10) repetitions<DHCP>("DHCP", {12, 43}, {0, 1, 9, 255}, [&](DHCP& q, int t, int l) { q.add_option(DHCP::option((uint8_t)t, (size_t)l, big.data())); }, 0, NMAX);
            if (job == 11) repetitions<DHCPv6>("DHCPv6", {8, 17}, {0, 1, 9, 255}, [&](DHCPv6& q, int t, int l) { q.add_option(DHCPv6::option((uint16_t)t, (size_t)l, big.data())); }, 0, NMAX);
            if (job == 12) repetitions<ICMPv6>("ICMPv6", {5, 200}, {6, 14, 254}, [&](ICMPv6& q, int t, int l) { q.add_option(ICMPv6::option((uint8_t)t, (size_t)l, big.data())); }, 0, NMAX);
            if (job == 13) repetitions<Dot11Beacon>("Dot11Beacon", {3, 221}, {0, 1, 9, 255}, [&](Dot11Beacon& q, int t, int l) { q.add_option(Dot11::option((uint8_t)t, (size_t)l, big.data())); }, 0, NMAX);
            if (job == 14) repetitions<PPPoE>("PPPoE", {0x0101, 0x0105}, {0, 9, 255}, [&](PPPoE& q, int t, int l) { q.add_tag(PPPoE::tag((PPPoE::TagTypes)t, (size_t)l, big.data())); }, 65535, NMAX, 6, 4);
            if (job == 15) repetitions<IPv6>("IPv6", {0, 60, 43}, {6, 7, 22, 254}, [&](IPv6& q, int t, int l) { q.add_header(IPv6::ext_header((uint8_t)t, (size_t)l, big.data())); }, 0, NMAX);
            if (job == 18) { Bytes huge = pattern(2046, 0x13); repetitions<IPv6>("IPv6", {0, 60}, {2030, 2038, 2039, 2040, 2046}, [&](IPv6& q, int t, int l) { q.add_header(IPv6::ext_header((uint8_t)t, (size_t)l, huge.data())); }, 0, 2); }
            if (job == 16) repetitions<RTP>("RTP", {1}, {0, 3}, [&](RTP& q, int t, int l) { if (l == 0) q.add_csrc_id(t); else { q.extension_bit(1); q.add_extension_data(t); } }, 0, NMAX);
            if (job == 17) repetitions<ICMP>("ICMP", {1}, {4, 7}, [&](ICMP& q, int t, int l) { q.type(ICMP::TIME_EXCEEDED); q.extensions().add_extension(ICMPExtension((uint8_t)t, (uint8_t)t)); (void)l; }, 0, th ? 300 : 100);
            if (job == 0) R.sample(jstr("family=P class=ICMPv6 a=prefix_info#0 b=mtu#0 ; family=H class=TCP ops=add34.0,rem34.0,add2.9"));
        };
    return run_main(argc, argv, NJ, NJ, body,
        [&](const std::string& kase) -> int {
            g_only = kase;
            for (int t = 0; t < 2; ++t) {
                A.tier = t ? "thorough" : "quick";
                for (int j = 0; j < NJ; ++j) body(j);
                for (auto& v : R.violations) { printf("violation reproduced: %s | %s\n", v.first.c_str(), v.second.detail.c_str()); return 1; }
            }
            printf("no violation for this case\n");
            return 0;
        });
}
