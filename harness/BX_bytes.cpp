// Shape-B enumerator over parsing entry points; serves C01 (safety of parse + accessors), C02 part ii (serialization of
// every accepted input) and C03 (re-serialization preserves the packet).   --prop C01|C02|C03 selects the oracle.
//
// Input family per entry point E (DESIGN 2.4): SHORT (all strings of length 0,1,2; length 3 / 4 over boundary alphabets),
// SEEDS (grammar wire images cut at every layer + hand-written wire seeds), and for every seed: d1 (every position x every
// other byte value), t (every truncation), x (extensions), t x d1s (every truncation x substitutions on structural bytes);
// thorough adds d2s (pairs of structural bytes x 16x16 boundary grid) and LENGTH-MAX growth.
#include "entry.hpp"
#include "sermon.hpp"
#include "derived.hpp"
#include "explore.hpp"
#include <unistd.h>

using namespace mc;
using namespace Tins;

static std::string PROP = "C01";
static const uint8_t BVALS[] = {0x00, 0x01, 0x02, 0x03, 0x04, 0x05, 0x06, 0x07, 0x08, 0x0f, 0x10, 0x3f, 0x40, 0x45, 0x60, 0x7f, 0x80, 0xaa, 0xc0, 0xc1, 0xf0, 0xfe, 0xff, 0x11};
static const uint8_t GRID16[] = {0x00, 0x01, 0x02, 0x04, 0x05, 0x08, 0x0f, 0x10, 0x3f, 0x40, 0x7f, 0x80, 0xc0, 0xf0, 0xfe, 0xff};

struct Outcome { bool accepted = false; uint64_t structure = 0; };

static uint64_t g_index = 0;
static bool g_confirming = false;
static const EntryPoint* g_ep = 0;

static std::string case_str(const EntryPoint& ep, const uint8_t* p, size_t n) { return "entry=" + ep.name + " hex=" + (n ? hex(p, n) : std::string("-")); }

static std::string deepest_class(const PDU& p) {
    const PDU* last = &p;
    for (const PDU* q = &p; q; q = q->inner_pdu()) if (q->pdu_type() != PDU::RAW) last = q;
    return clsname(*last);
}
// the Ethernet dispatch is ambiguous on the wire for a frame without payload (type 0 == 802.3 length 0): re-parse with the root's own class
static PDU* reparse(const EntryPoint& ep, const PDU& p, const Bytes& y) {
    if (ep.name == "DLT_EN10MB") {
        if (p.pdu_type() == PDU::ETHERNET_II) return new EthernetII(y.data(), (uint32_t)y.size());
        return new Dot3(y.data(), (uint32_t)y.size());
    }
    return ep.fn(y.data(), (uint32_t)y.size());
}
static uint32_t link_padding(const PDU& p) {
    uint32_t pad = 0;
    for (const PDU* q = &p; q; q = q->inner_pdu())
        if (q->pdu_type() == PDU::ETHERNET_II || q->pdu_type() == PDU::DOT1Q || q->pdu_type() == PDU::DOT3) pad += q->trailer_size();
    return pad;
}

// one input through one entry point with the oracle of PROP; returns what the d1 pass needs to classify bytes
static Outcome run_case(const EntryPoint& ep, const uint8_t* data, size_t n, bool record = true) {
    Outcome out;
    uint64_t my = g_index++;
    if (skipped(my)) return out;
    set_case(my, PROP + ":" + ep.name, case_str(ep, data, n));
    uint8_t* buf = (uint8_t*)malloc(n);          // exact size: one byte past the end is a redzone; n==0 gives a zero-size block
    if (n) memcpy(buf, data, n);
    Mon::reset();
    long ledger0 = live_allocs();
    alarm(20);
    std::string sig, detail;
    int n_roundtrips = 0, n_skipped_env = 0, n_serialized = 0;
    uint64_t view_hash = 0;
    PDU* pdu = 0;
    // C03: the two parses run over differently pre-filled heap blocks, so a member a parser leaves uninitialised shows up as a
    // getter that differs between p and q (view(q) = view(p) must hold whatever the memory held before)
    if (PROP == "C03") { g_new_fill_on = true; g_new_fill = 0xa5; }
    try { pdu = ep.fn(buf, (uint32_t)n); }
    catch (malformed_packet&) {}
    catch (exception_base& e) { sig = "exc:" + std::string(typeid(e).name()) + ":parse:" + ep.name; detail = e.what(); }
    catch (std::exception& e) { sig = "exc:" + std::string(typeid(e).name()) + ":parse:" + ep.name; detail = e.what(); }
    if (pdu) {
        out.accepted = true;
        uint64_t st = 0xcbf29ce484222325ULL;
        for (const PDU* q = pdu; q; q = q->inner_pdu()) { uint32_t v[3] = {(uint32_t)q->pdu_type(), q->header_size(), q->trailer_size()}; st = fnv(v, sizeof v, st); }
        out.structure = st;
        if (PROP == "C01") {
            // accessor sweep: every generated getter of every layer, size queries, look-ups, clone + destruction
            std::vector<AccessorFault> faults;
            try {
                View v = view(*pdu, &faults);
                (void)pdu->size(); (void)pdu->advertised_size();
                (void)pdu->find_pdu<IP>(); (void)pdu->find_pdu<TCP>(); (void)pdu->find_pdu<RawPDU>(); (void)pdu->find_pdu<Dot11ManagementFrame>();
                PDU* c = pdu->clone();
                (void)c->size();
                delete c;
            } catch (std::exception& e) { if (sig.empty()) { sig = "exc:" + std::string(typeid(e).name()) + ":accessor-sweep:" + ep.name; detail = e.what(); } }
            if (!faults.empty() && sig.empty()) { sig = "exc:accessor:" + faults[0].key; detail = faults[0].what; }
        } else if (PROP == "C02") {
            if (needs_environment(*pdu)) n_skipped_env++;
            else {
                SerResult r = checked_serialize(*pdu);
                n_serialized++;
                if (!r.ok && sig.empty()) { sig = r.sig; detail = r.detail; }
            }
        } else if (PROP == "C03" && ep.serializable && !has_unserializable(*pdu)) {
            if (needs_environment(*pdu)) n_skipped_env++;
            else {
                try {
                    PacketView pv = packet_view(*pdu);
                    uint32_t pad = link_padding(*pdu);
                    Bytes y = pdu->serialize();
                    PDU* q = 0;
                    struct Del { PDU*& p; ~Del() { delete p; p = 0; } } del_q{q};
                    g_new_fill = 0x3c;
                    try { q = reparse(ep, *pdu, y); }
                    catch (malformed_packet&) { sig = "roundtrip:reparse-rejected:" + deepest_class(*pdu); detail = "serialization of an accepted packet is rejected: " + hex(y).substr(0, 400); }
                    if (q) {
                        PacketView qv = packet_view(*q);
                        std::string d = compare_views(pv, qv, pad);
                        if (!d.empty()) { size_t bar = d.find('|'); sig = d.substr(0, bar); detail = d.substr(bar + 1) + "  y=" + hex(y).substr(0, 300); }
                        else if (!pv.payload.empty()) {
                            Bytes y2 = q->serialize();
                            if (y2 != y) { sig = "roundtrip:second-serialization-differs:" + deepest_class(*pdu); detail = "y=" + hex(y).substr(0, 300) + " y2=" + hex(y2).substr(0, 300); }
                        }
                        n_roundtrips++;
                        view_hash = fnv(view_str(pv.layers.empty() ? View() : pv.layers.back().entries), out.structure);
                    }
                } catch (std::exception& e) { if (sig.empty()) { sig = "exc:" + std::string(typeid(e).name()) + ":roundtrip:" + deepest_class(*pdu); detail = e.what(); } }
            }
        }
        delete pdu;
    }
    g_new_fill_on = false;
    alarm(0);
    free(buf);
    if (Mon::errors && (sig.empty() || sig.compare(0, 4, "exc:") == 0)) { sig = Mon::first; detail = Mon::first_detail; }
    bool ledger_off = sig.empty() && live_allocs() != ledger0;
    if (record && n_roundtrips) { R.count("roundtrips", n_roundtrips); R.dist("distinct_views", view_hash); }
    if (record && n_skipped_env) R.count("skipped_env");
    if (record && n_serialized) R.count("packets_serialized");
    if (ledger_off && !g_confirming) {
        // confirm: harness-side or library-side lazily initialised statics allocate once; a leak repeats. Re-run the identical case twice.
        g_confirming = true;
        long l1 = live_allocs();
        g_index--; run_case(ep, data, n, false);
        long l2 = live_allocs();
        g_index--; run_case(ep, data, n, false);
        long l3 = live_allocs();
        g_confirming = false;
        if (l3 != l2 && l2 != l1) { sig = "leak:" + ep.name; detail = std::to_string(l3 - l2) + " allocation(s) not released per execution"; }
    }
    if (record) {
        R.count("evaluations");
        if (out.accepted) { R.count("accepted"); R.dist("distinct_nontrivial", fnv(ep.name, out.structure)); }
        else R.count("rejected");
    }
    if (!sig.empty()) R.violation(sig, detail, PROP == "C01" ? case_str(ep, data, n) : "prop=" + PROP + " " + case_str(ep, data, n));
    return out;
}

static uint64_t class_of(const Outcome& o) { return o.accepted ? o.structure : 0; }

static void enumerate_seed(const EntryPoint& ep, const Seed& seed, bool thorough) {
    const Bytes& s = seed.bytes;
    size_t n = s.size();
    Outcome base = run_case(ep, s.data(), n);
    R.count(base.accepted ? "seeds_accepted" : "seeds_rejected");
    Bytes m = s;
    // d1: every position x every other value; structural[pos] = some substitution changes the parse class
    std::vector<char> structural(n, 0);
    size_t d1_positions = n;
    if (n > 400) d1_positions = 400;      // very long seeds: header region only (payload bytes are opaque to every parser)
    for (size_t pos = 0; pos < d1_positions; ++pos) {
        // quick: 24 boundary values + the 8 single-bit flips of the seed byte; thorough: all 255 other values
        bool want[256];
        for (int v = 0; v < 256; ++v) want[v] = thorough;
        if (!thorough) { for (uint8_t v : BVALS) want[v] = true; for (int bit = 0; bit < 8; ++bit) want[s[pos] ^ (1 << bit)] = true; }
        for (int v = 0; v < 256; ++v) {
            if (v == s[pos] || !want[v]) continue;
            m[pos] = (uint8_t)v;
            Outcome o = run_case(ep, m.data(), n);
            R.count("cases_d1");
            if (class_of(o) != class_of(base)) structural[pos] = 1;
        }
        m[pos] = s[pos];
        if (deadline_reached()) { R.flags["exhaustive"] = false; return; }
    }
    // t: every truncation
    for (size_t len = 0; len < n; ++len) run_case(ep, s.data(), len);
    R.count("cases_t", n);
    // x: extensions
    for (int k : {1, 2, 3, 4, 8})
        for (int fill : {0x00, 0xff}) { Bytes e = s; e.insert(e.end(), k, (uint8_t)fill); run_case(ep, e.data(), e.size()); R.count("cases_x"); }
    if (PROP != "C01" && PROP != "C03") return;     // C02(ii) rides on SEEDS + d1 + t
    // t x d1s: every truncation x substitutions on structural bytes inside the kept prefix
    std::vector<size_t> sp;
    for (size_t i = 0; i < n; ++i) if (structural[i]) sp.push_back(i);
    R.count("structural_bytes", sp.size());
    const int nvals = thorough ? 24 : 8;
    static const uint8_t QV[] = {0x00, 0xff, 0x01, 0x7f, 0x80, 0x0f, 0x40, 0x05};
    for (size_t len = 1; len < n; ++len) {
        if (len > 300) break;
        for (size_t pos : sp) {
            if (pos >= len) break;
            for (int vi = 0; vi < nvals; ++vi) {
                uint8_t v = thorough ? BVALS[vi] : QV[vi];
                if (v == s[pos]) continue;
                m[pos] = v;
                run_case(ep, m.data(), len);
                R.count("cases_txd1s");
            }
            m[pos] = s[pos];
        }
        if (deadline_reached()) { R.flags["exhaustive"] = false; return; }
    }
    if (!thorough) return;
    // d2s: pairs of structural bytes x 16x16 grid
    for (size_t a = 0; a < sp.size(); ++a)
        for (size_t b = a + 1; b < sp.size() && b < a + 12; ++b) {     // pairs within a window of 12 structural bytes
            for (uint8_t va : GRID16) for (uint8_t vb : GRID16) {
                m[sp[a]] = va; m[sp[b]] = vb;
                run_case(ep, m.data(), n);
                R.count("cases_d2s");
            }
            m[sp[a]] = s[sp[a]]; m[sp[b]] = s[sp[b]];
            if (deadline_reached()) { R.flags["exhaustive"] = false; return; }
        }
    // LENGTH-MAX: grow the payload to the 16-bit limits
    for (size_t total : {(size_t)65535, (size_t)65536 + 20, (size_t)1500}) {
        if (n >= total) continue;
        Bytes e = s; e.resize(total, 0x5a);
        run_case(ep, e.data(), e.size());
        R.count("cases_lenmax");
    }
}

static void enumerate_short(const EntryPoint& ep, bool thorough) {
    uint8_t b[5];
    run_case(ep, b, 0);
    for (int a = 0; a < 256; ++a) { b[0] = (uint8_t)a; run_case(ep, b, 1); }
    for (int a = 0; a < 256; ++a) for (int c = 0; c < 256; ++c) { b[0] = (uint8_t)a; b[1] = (uint8_t)c; run_case(ep, b, 2); }
    for (uint8_t x : BVALS) for (uint8_t y : BVALS) for (uint8_t z : BVALS) { b[0] = x; b[1] = y; b[2] = z; run_case(ep, b, 3); }
    const int n4 = thorough ? 16 : 12;
    for (int i = 0; i < n4; ++i) for (int j = 0; j < n4; ++j) for (int k = 0; k < n4; ++k) for (int l = 0; l < n4; ++l) {
        b[0] = GRID16[i]; b[1] = GRID16[j]; b[2] = GRID16[k]; b[3] = GRID16[l]; run_case(ep, b, 4);
    }
    R.count("cases_short", 1 + 256 + 65536 + 24 * 24 * 24 + n4 * n4 * n4 * n4);
}

struct Unit { int ep; int seed; };   // seed == -1: SHORT

int main(int argc, char** argv) {
    for (int i = 1; i + 1 < argc; ++i) if (std::string(argv[i]) == "--prop") PROP = argv[i + 1];
    const int NJ = 96;
    return run_main(argc, argv, NJ, NJ,
        [&](int job) {
            auto eps = entry_points();
            auto g = grammar(A.thorough() ? 3 : 2);
            auto corpus = seed_corpus(g);
            std::vector<Unit> units;
            size_t total_seeds = 0;
            for (size_t e = 0; e < eps.size(); ++e) {
                units.push_back(Unit{(int)e, -1});
                auto it = corpus.find(eps[e].name);
                size_t ns = it == corpus.end() ? 0 : it->second.size();
                total_seeds += ns;
                for (size_t s = 0; s < ns; ++s) units.push_back(Unit{(int)e, (int)s});
                if (job == 0 && ns == 0) R.info["entry_without_seed:" + eps[e].name] = "true";
            }
            if (job == 0) { R.count("entry_points", eps.size()); R.count("seeds", total_seeds); R.count("grammar_packets", g.size()); }
            signal(SIGALRM, [](int) { mc::R.violation("hang:" + mc::g_context, "case did not finish within 20 s", mc::g_progress ? std::string(mc::g_progress) : ""); if (!mc::A.out.empty()) mc::R.write(mc::A.out); _exit(3); });
            // deal units round-robin; SHORT units are the heavy ones and come first in each entry, so they spread too
            for (size_t u = job; u < units.size(); u += NJ) {
                const EntryPoint& ep = eps[units[u].ep];
                g_ep = &ep;
                // case indices must be stable per job across restarts: they are, since enumeration is deterministic
                if (units[u].seed < 0) { if (PROP == "C01") enumerate_short(ep, A.thorough()); }
                else {
                    const Seed& sd = corpus[ep.name][units[u].seed];
                    if (R.samples.size() < 3) R.sample("{\"entry\":" + jstr(ep.name) + ",\"seed\":" + jstr(sd.origin) + ",\"hex\":" + jstr(hex(sd.bytes).substr(0, 160)) + "}");
                    enumerate_seed(ep, sd, A.thorough());
                }
                if (deadline_reached()) { R.flags["exhaustive"] = false; break; }
            }
        },
        [&](const std::string& kase) -> int {
            auto kv = parse_kv(kase);
            if (kv.count("prop")) PROP = kv["prop"];
            Bytes b = kv["hex"] == "-" ? Bytes() : unhex(kv["hex"]);
            for (auto& ep : entry_points())
                if (ep.name == kv["entry"]) {
                    run_case(ep, b.data(), b.size());
                    for (auto& v : R.violations) { printf("violation reproduced: %s | %s\n", v.first.c_str(), v.second.detail.c_str()); return 1; }
                    printf("no violation for this input (prop %s)\n", PROP.c_str());
                    return 0;
                }
            printf("unknown entry point\n");
            return 2;
        });
}
