// Parsing entry points (generated from api.inc + the factories / dispatchers the sniffer uses) and the seed corpus:
// wire images of all grammar packets, cut at every layer boundary, plus hand-written wire seeds.
#pragma once
#include "grammar.hpp"
#include <pcap.h>

namespace mc {

typedef PDU* (*ParseFn)(const uint8_t*, uint32_t);
struct EntryPoint { std::string name; ParseFn fn; const std::type_info* cls; bool serializable; };

template <class Q> PDU* parse_as(const uint8_t* p, uint32_t n) { return new Q(p, n); }
inline PDU* parse_dot11_from_bytes(const uint8_t* p, uint32_t n) { return Dot11::from_bytes(p, n); }
inline PDU* parse_eapol_from_bytes(const uint8_t* p, uint32_t n) { return EAPOL::from_bytes(p, n); }
inline PDU* parse_bootp(const uint8_t* p, uint32_t n) { return new BootP(p, n); }
inline PDU* parse_dlt_en10mb(const uint8_t* p, uint32_t n) {          // what the sniffer's Ethernet handler does
    if (Internals::is_dot3(p, n)) return new Dot3(p, n);
    return new EthernetII(p, n);
}
template <int DLT> PDU* parse_dlt(const uint8_t* p, uint32_t n) { return Internals::pdu_from_dlt_flag(DLT, p, n, true); }
template <int T> PDU* parse_flag(const uint8_t* p, uint32_t n) { return Internals::pdu_from_flag((PDU::PDUType)T, p, n); }

inline std::vector<EntryPoint> entry_points() {
    std::vector<EntryPoint> e;
#define API_BUFCTOR(Q, T) e.push_back(EntryPoint{#T, &parse_as<Q>, &typeid(Q), true});
#include "api.inc"
#undef API_BUFCTOR
    for (auto& x : e) if (x.name == "PPI" || x.name == "PKTAP") x.serializable = false;
    e.push_back(EntryPoint{"BootP", &parse_bootp, &typeid(BootP), true});
    e.push_back(EntryPoint{"Dot11::from_bytes", &parse_dot11_from_bytes, 0, true});
    e.push_back(EntryPoint{"EAPOL::from_bytes", &parse_eapol_from_bytes, 0, true});
    e.push_back(EntryPoint{"DLT_EN10MB", &parse_dlt_en10mb, 0, true});
    e.push_back(EntryPoint{"dlt:IEEE802_11_RADIO", &parse_dlt<DLT_IEEE802_11_RADIO>, 0, true});
    e.push_back(EntryPoint{"dlt:LINUX_SLL", &parse_dlt<DLT_LINUX_SLL>, 0, true});
    e.push_back(EntryPoint{"dlt:NULL", &parse_dlt<DLT_NULL>, 0, true});
    e.push_back(EntryPoint{"dlt:PPI", &parse_dlt<DLT_PPI>, 0, false});
    return e;
}

struct Seed { std::string origin; Bytes bytes; };

inline void push_seed(std::map<std::string, std::vector<Seed> >& m, std::set<uint64_t>& seen, const std::string& entry,
                      const std::string& origin, const Bytes& b) {
    uint64_t h = fnv(entry, fnv(b.data(), b.size()));
    if (seen.insert(h).second) m[entry].push_back(Seed{origin, b});
}

static inline Bytes H(const char* s) { std::string t; for (const char* p = s; *p; ++p) if (*p != ' ') t += *p; return unhex(t); }

// hand-written wire seeds for shapes the building API cannot emit
inline void wire_seeds(std::map<std::string, std::vector<Seed> >& m, std::set<uint64_t>& seen) {
    // DNS with compression: answer names pointing into the question, pointer-to-pointer, additional pointing into authority
    Bytes dns1 = H("1234 8180 0001 0002 0001 0001"
                   "03777777 076578616d706c65 03636f6d 00 0001 0001"                       // www.example.com A IN   (offset 12)
                   "c00c 0005 0001 0000003c 0008 05616c696173 c010"                         // CNAME alias.<example.com>
                   "c02d 0001 0001 0000003c 0004 5db8d822"                                  // name -> pointer to 'alias...' A
                   "c010 0002 0001 00000e10 0006 036e7331 c010"                             // authority: example.com NS ns1.example.com
                   "c04f 0001 0001 00000e10 0004 0a000035");                                // additional: ns1.example.com A
    push_seed(m, seen, "DNS", "wire:dns compressed", dns1);
    // 27-byte style message: CNAME answer whose last label ends exactly at the end of the message
    push_seed(m, seen, "DNS", "wire:dns label-at-end", H("0001 8000 0000 0001 0000 0000  00 0005 0001 00000001 0003 026162"));
    // names at the 255-octet limit: dotted lengths 252..258 built from labels of 63,63,63,x[,1], in the question, as CNAME data and
    // reached through a compression pointer
    for (int total = 252; total <= 258; ++total)
        for (int five = 0; five < 2; ++five) {
            std::vector<int> labels = {63, 63, 63};
            int rest = total - (63 * 3 + 3);          // characters left incl. the dots that precede them
            if (five) { if (rest < 4) continue; labels.push_back(rest - 1 - 2); labels.push_back(1); }
            else { if (rest < 2 || rest - 1 > 63) continue; labels.push_back(rest - 1); }
            Bytes name;
            for (size_t li = 0; li < labels.size(); ++li) { name.push_back((uint8_t)labels[li]); for (int i = 0; i < labels[li]; ++i) name.push_back(uint8_t('a' + (li + i) % 26)); }
            Bytes q = H("0001 0100 0001 0000 0000 0000"); q.insert(q.end(), name.begin(), name.end()); q.push_back(0); Bytes t = H("0001 0001"); q.insert(q.end(), t.begin(), t.end());
            push_seed(m, seen, "DNS", "wire:dns long question " + std::to_string(total), q);
            Bytes a = H("0001 8100 0001 0001 0000 0000 0161 00 0005 0001  c00c 0005 0001 00000010"); uint16_t rl = (uint16_t)(name.size() + 1); a.push_back(rl >> 8); a.push_back(rl & 0xff);
            a.insert(a.end(), name.begin(), name.end()); a.push_back(0);
            push_seed(m, seen, "DNS", "wire:dns long cname " + std::to_string(total), a);
            // first label inline, the rest through a pointer to the question name's second label (offset 12 + 64)
            Bytes c = q; Bytes an = H("0161 c04c 0001 0001 00000010 0004 01020304"); c[7] = 1; c.insert(c.end(), an.begin(), an.end());
            push_seed(m, seen, "DNS", "wire:dns long via pointer " + std::to_string(total), c);
        }
    push_seed(m, seen, "DNS", "wire:dns ptr-loop", H("0001 8000 0001 0000 0000 0000  c00c 0001 0001"));
    push_seed(m, seen, "DNS", "wire:dns soa", H("0002 8400 0000 0001 0000 0000  03636f6d00 0006 0001 00000e10 001d"
                                                 "016103636f6d00 016203636f6d00 00000001 00000002 00000003 00000004 00000005"));
    push_seed(m, seen, "DNS", "wire:dns mx ptr", H("0003 8400 0001 0001 0000 0000  03636f6d00 000f 0001  c00c 000f 0001 00000e10 0004 000a c00c"));
    // RadioTap: extended present words, vendor namespace, then an ACK frame
    push_seed(m, seen, "RadioTap", "wire:radiotap ext-present", H("00 00 10 00  0e 00 00 80  00 00 00 00  10 02 6c 09   d4 00 00 00 02 11 22 33 44 55"));
    push_seed(m, seen, "RadioTap", "wire:radiotap vendor-ns", H("00 00 16 00  0e 00 00 40   00 02 6c 09 a0 00 d0 00  00 11 22 00 02 00 aa bb   d4 00 00 00 02 11 22 33 44 55") );
    push_seed(m, seen, "RadioTap", "wire:radiotap tsft+fcs", H("00 00 12 00  03 00 00 00  88 77 66 55 44 33 22 11  10 00   d4 00 00 00 02 11 22 33 44 55 de ad be ef"));
    push_seed(m, seen, "RadioTap", "wire:radiotap mcs+xchan", H("00 00 1a 00  00 00 0c 00   40 01 00 00 6c 09 01 11   07 00 05 00 00 00 00 00 00 00  d4 00 00 00 02 11 22 33 44 55"));
    // it_len that is not a multiple of 4 with the ext bit set in the last COMPLETE present word (the next word would be partial)
    push_seed(m, seen, "RadioTap", "wire:radiotap ext partial-word 10", H("00 00 0a 00  00 00 00 80  00 00   d4 00 00 00 02 11 22 33 44 55"));
    push_seed(m, seen, "RadioTap", "wire:radiotap ext partial-word 15", H("00 00 0f 00  00 00 00 80  00 00 00 80  00 00 00   d4 00 00 00 02 11 22 33 44 55"));
    push_seed(m, seen, "RadioTap", "wire:radiotap header only", H("00 00 08 00  00 00 00 00"));
    // PPI whose field data ends exactly in front of the 802.11-common flags octet (pph_len 20 = 8 + 12) and one octet later
    push_seed(m, seen, "PPI", "wire:ppi dot11 len20", H("00 00 14 00 69 00 00 00  02 00 08 00  00 00 00 00 00 00 00 00   d4 00 00 00 02 11 22 33 44 55 01 02 03 04"));
    push_seed(m, seen, "PPI", "wire:ppi dot11 len21", H("00 00 15 00 69 00 00 00  02 00 09 00  00 00 00 00 00 00 00 00 01   d4 00 00 00 02 11 22 33 44 55 01 02 03 04"));
    // PPI (not serializable): header + ethernet frame; header + 802.11 common field with FCS flag + ACK frame
    push_seed(m, seen, "PPI", "wire:ppi eth", H("00 00 08 00 01 00 00 00   02aabbccddee 021122334455 0800 4500001c00010000401100000a0000010a000002 0001000200080000"));
    push_seed(m, seen, "PPI", "wire:ppi dot11", H("00 00 20 00 69 00 00 00  02 00 14 00  00 00 00 00 00 00 00 00 01 00 02 00 6c 09 a0 00 00 00 d8 a1   d4 00 00 00 02 11 22 33 44 55 01 02 03 04"));
    push_seed(m, seen, "PPI", "wire:ppi radiotap", H("00 00 08 00 7f 00 00 00  00 00 08 00 00 00 00 00  d4 00 00 00 02 11 22 33 44 55"));
    push_seed(m, seen, "PPI", "wire:ppi null", H("00 00 08 00 00 00 00 00  02 00 00 00  4500001c00010000401100000a0000010a000002 0001000200080000"));
    push_seed(m, seen, "PPI", "wire:ppi sll", H("00 00 08 00 71 00 00 00  0000 0001 0006 0211223344550000 0800 4500001c00010000401100000a0000010a000002 0001000200080000"));
    push_seed(m, seen, "dlt:PPI", "wire:ppi eth", H("00 00 08 00 01 00 00 00   02aabbccddee 021122334455 0800 4500001c00010000401100000a0000010a000002 0001000200080000"));
    push_seed(m, seen, "PKTAP", "wire:pktap", H("6c000000 01000000 01000000" "656e3000000000000000000000000000000000000000000000" "00000000 00000000 02000000 0e000000"
                                                 "00000000 00000000" "0000000000000000000000000000000000000000" "00000000 00000000" "0000000000000000000000000000000000000000"
                                                 "00000000 00000000 00000000 02aabbccddee 021122334455 0806 0001080006040001 021122334455 0a000001 000000000000 0a000002"));
    // TCP: options ending in EOL followed by garbage padding; option kind 34 len 2 (empty data)
    push_seed(m, seen, "TCP", "wire:tcp eol", H("0050 0401 00000001 00000002 7002 2000 0000 0000  0204 05b4 0101 0000 04 02 00 00"));
    push_seed(m, seen, "TCP", "wire:tcp fastopen-empty", H("0050 0401 00000001 00000000 6002 2000 0000 0000  2202 0101  41"));
    // IPv4 with options ending exactly at the header end, IPv6 with hop-by-hop jumbo + padN
    push_seed(m, seen, "IP", "wire:ip opts", H("4700 0024 0001 0000 4011 0000 0a000001 0a000002  8804 1234 0100   0001 0002 0008 0000"));
    push_seed(m, seen, "IPv6", "wire:ipv6 hbh jumbo", H("6000 0000 0000 0040 20010db8000000000000000000000001 20010db8000000000000000000000002  1100 c204 00000010 0000   0001 0002 0008 0000"));
    push_seed(m, seen, "IPv6", "wire:ipv6 frag+dst", H("6000 0000 0018 2c40 20010db8000000000000000000000001 20010db8000000000000000000000002  3c00 0008 00000001  1100 0104 00000000  0001 0002 0008 0000"));
    // DHCP: END followed by padding, PAD inside, option 255 early
    { Bytes d(240, 0); d[0] = 1; d[1] = 1; d[2] = 6; d[236] = 0x63; d[237] = 0x82; d[238] = 0x53; d[239] = 0x63;
      Bytes o = H("35 01 01  00 00  32 04 0a000032  ff  00 00 00 00"); d.insert(d.end(), o.begin(), o.end());
      push_seed(m, seen, "DHCP", "wire:dhcp pad,end,padding", d); }
    // ICMP with RFC 4884 extension structure (length field set, payload padded to 128)
    { Bytes b = H("0b00 0000 00 20 0000"); Bytes orig(128, 0x45); b.insert(b.end(), orig.begin(), orig.end());
      Bytes ext = H("2000 0000  0008 0101 00010203"); b.insert(b.end(), ext.begin(), ext.end());
      push_seed(m, seen, "ICMP", "wire:icmp rfc4884", b); }
    // 802.11 protected QoS 4-address data frame (body = CCMP header + some bytes)
    push_seed(m, seen, "Dot11::from_bytes", "wire:dot11 qos 4addr protected", H("8843 2c00 020000000001 020000000002 020000000003 1000 020000000004 0500  0100 0020 00000000  aabbccddeeff00112233445566778899"));
    push_seed(m, seen, "Dot11::from_bytes", "wire:dot11 beacon tagged", H("8000 0000 ffffffffffff 021122334455 021122334455 1000  0102030405060708 6400 1104"
                                                                           "0003 6e6574  0108 82848b962430486c  0301 06  0504 00010000  2a01 00  3014 0100000fac040100000fac040100000fac020000  dd06 0050f2020101"));
    // EAPOL-Key (RSN) message 3 with key data, RC4 variant
    push_seed(m, seen, "EAPOL::from_bytes", "wire:eapol rsn", H("0203 0075 02 13ca 0010 0000000000000002" "00112233445566778899aabbccddeeff00112233445566778899aabbccddeeff"
                                                               "00000000000000000000000000000000 0000000000000000 0000000000000000 00000000000000000000000000000000 0016 30140100000fac040100000fac040100000fac020000"));
    push_seed(m, seen, "EAPOL::from_bytes", "wire:eapol rc4", H("0103 0031 01 0005 0000000000000001 00112233445566778899aabbccddeeff 81 00112233445566778899aabbccddeeff 0102030405"));
    // LLC variants by control field low bits
    push_seed(m, seen, "LLC", "wire:llc I lowbits10", H("4242 0a 04 0102"));
    push_seed(m, seen, "LLC", "wire:llc S", H("4242 05 02"));
    push_seed(m, seen, "LLC", "wire:llc U xid", H("4242 af 81 01 00"));
    // SNAP / SLL / AH in front of an unknown payload type
    push_seed(m, seen, "SNAP", "wire:snap unknown", H("aaaa03 00000c 2000 0102030405"));
    push_seed(m, seen, "SLL", "wire:sll unknown", H("0000 0001 0006 0211223344550000 1234 0102030405"));
    push_seed(m, seen, "IPSecAH", "wire:ah unknown", H("fd 04 0000 00000001 00000002 000102030405060708090a0b  0102030405"));
    push_seed(m, seen, "Loopback", "wire:loopback llc", H("07000000 4242 03 0000 00 00"));
    push_seed(m, seen, "MPLS", "wire:mpls bottom ip6", H("00010140 6000 0000 0008 1140 20010db8000000000000000000000001 20010db8000000000000000000000002 0001000200080000"));
    push_seed(m, seen, "PPPoE", "wire:pppoe tags", H("11 09 0000 000c 0101 0000 0103 0004 01020304"));
    push_seed(m, seen, "DHCPv6", "wire:dhcpv6 userclass", H("01 abcdef 000f 0008 0002 6162 0002 6364  0010 000a 00000009 0002 7878 0000"));
    push_seed(m, seen, "RTP", "wire:rtp ext pad", H("b1 60 0007 000004d2 0000cafe 00000001  bede 0001 10203040  0102030405 000003"));
    push_seed(m, seen, "VXLAN", "wire:vxlan", H("08000000 00138800 02aabbccddee 021122334455 0806 0001080006040001 021122334455 0a000001 000000000000 0a000002"));
    push_seed(m, seen, "STP", "wire:stp", H("0000 00 00 00 8001021122334455 00000004 8001021122334455 8001 0100 1400 0200 0f00"));
    push_seed(m, seen, "Dot3", "wire:dot3 llc", H("02aabbccddee 021122334455 0008 4242 03 0102030405"));
    push_seed(m, seen, "ARP", "wire:arp", H("0001 0800 06 04 0001 021122334455 0a000001 000000000000 0a000002"));
    push_seed(m, seen, "UDP", "wire:udp", H("0035 1000 000c 0000 01020304"));
    push_seed(m, seen, "RawPDU", "wire:raw", H("0102030405"));
}

// every layer suffix of every grammar packet's serialization becomes a seed of that layer's class
inline std::map<std::string, std::vector<Seed> > seed_corpus(const std::vector<Built>& g) {
    std::map<std::string, std::vector<Seed> > m;
    std::set<uint64_t> seen;
    std::map<std::string, std::string> by_type;   // typeid name -> entry name
    for (auto& e : entry_points()) if (e.cls) by_type[e.cls->name()] = e.name;
    wire_seeds(m, seen);
    for (auto& b : g) {
        Bytes s;
        try { s = b.pdu->serialize(); } catch (std::exception&) { continue; }
        uint32_t off = 0;
        bool first = true;
        for (const PDU* p = b.pdu.get(); p && off <= s.size(); p = p->inner_pdu()) {
            auto it = by_type.find(typeid(*p).name());
            if (b.own && *b.own != typeid(*p)) { off += p->header_size(); first = false; continue; }   // generated variants seed their own class only
            Bytes suffix(s.begin() + off, s.end());
            if (it != by_type.end()) push_seed(m, seen, it->second, b.name + "@" + std::to_string(off), suffix);
            if (p->matches_flag(PDU::DOT11)) push_seed(m, seen, "Dot11::from_bytes", b.name + "@" + std::to_string(off), suffix);
            if (p->matches_flag(PDU::EAPOL)) push_seed(m, seen, "EAPOL::from_bytes", b.name + "@" + std::to_string(off), suffix);
            if (first) {
                if (p->pdu_type() == PDU::ETHERNET_II || p->pdu_type() == PDU::DOT3) push_seed(m, seen, "DLT_EN10MB", b.name, suffix);
                if (p->pdu_type() == PDU::RADIOTAP) push_seed(m, seen, "dlt:IEEE802_11_RADIO", b.name, suffix);
                if (p->pdu_type() == PDU::SLL) push_seed(m, seen, "dlt:LINUX_SLL", b.name, suffix);
                if (p->pdu_type() == PDU::LOOPBACK) push_seed(m, seen, "dlt:NULL", b.name, suffix);
            }
            first = false;
            off += p->header_size();
        }
    }
    return m;
}

}  // namespace mc
