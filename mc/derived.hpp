// Which getters are DERIVED by serialization (lengths, checksums, padding, next-protocol tags before a recognised payload)
// and the view comparison of C03/C04 that ignores exactly those.  See DESIGN.md appendix A.
#pragma once
#include "show.hpp"

namespace mc {

// always derived: recomputed by write_serialization, never user-controlled on the wire
inline bool always_derived(const std::string& key) {
    static const char* k[] = {
        "Dot3.length", "IP.tot_len", "IP.head_len", "IP.checksum", "IP.advertised_size", "IPv6.payload_length",
        "TCP.data_offset", "TCP.checksum", "UDP.length", "UDP.checksum", "ICMP.checksum", "ICMP.length", "ICMPv6.checksum", "ICMPv6.length",
        "RadioTap.length", "EAPOL.length", "PPPoE.payload_length", "IPSecAH.length",
        "RSNEAPOL.key_length", "RSNEAPOL.wpa_length", "RC4EAPOL.key_length",      // key-data length fields rewritten by write_body
        0};
    for (int i = 0; k[i]; ++i) if (key == k[i]) return true;
    // size queries are lengths
    size_t dot = key.find('.');
    std::string g = dot == std::string::npos ? key : key.substr(dot + 1);
    return g == "header_size" || g == "trailer_size" || g == "size" || g == "advertised_size";
}
// next-protocol tags: derived when a recognised layer (or nothing) follows; must survive before an unrecognised non-empty payload
inline bool protocol_tag(const std::string& key) {
    static const char* k[] = {"EthernetII.payload_type", "Dot1Q.payload_type", "IP.protocol", "IPv6.next_header", "SNAP.eth_type", "SLL.protocol",
                              "IPSecAH.next_header", "Loopback.family", "LLC.dsap", "LLC.ssap", "MPLS.bottom_of_stack", "PPPoE.code_unused", 0};
    for (int i = 0; k[i]; ++i) if (key == k[i]) return true;
    return false;
}

struct LayerView { int type; std::string cls; View entries; };
struct PacketView { std::vector<LayerView> layers; Bytes payload; bool has_payload_layer = false; };

inline PacketView packet_view(const Tins::PDU& root) {
    PacketView pv;
    for (const Tins::PDU* p = &root; p; p = p->inner_pdu()) {
        if (p->pdu_type() == Tins::PDU::RAW && !p->inner_pdu()) {
            pv.payload = static_cast<const Tins::RawPDU*>(p)->payload();
            pv.has_payload_layer = true;
            break;
        }
        LayerView lv;
        lv.type = (int)p->pdu_type();
        lv.cls = typeid(*p).name();
        view_layer(*p, lv.entries, 0);
        pv.layers.push_back(lv);
    }
    return pv;
}

// returns "" when q preserves p (modulo derived fields), else "signature|detail"
// pad = bytes of link-layer minimum-size padding libtins appended when serializing p (may reappear as trailing zero payload bytes)
inline std::string compare_views(const PacketView& p, const PacketView& q, uint32_t pad) {
    if (p.layers.size() != q.layers.size()) {
        std::string a, b;
        for (auto& l : p.layers) a += std::to_string(l.type) + "/";
        for (auto& l : q.layers) b += std::to_string(l.type) + "/";
        return "roundtrip:layer-stack-changed|" + a + " -> " + b;
    }
    for (size_t i = 0; i < p.layers.size(); ++i) {
        const LayerView &a = p.layers[i], &b = q.layers[i];
        if (a.cls != b.cls) return "roundtrip:layer-class-changed|layer " + std::to_string(i) + " " + a.cls + " -> " + b.cls;
        bool last_layer = i + 1 == p.layers.size();
        bool raw_follows = last_layer && !p.payload.empty();       // unrecognised, non-empty payload follows this layer
        // RFC 4884: for error messages that may carry extensions the 'length' octet is derived; getters that alias the same header
        // octets (the rest-of-header union) are views of that derived octet for these types
        bool icmp_err = false, icmp6_err = false;
        for (auto& e : a.entries) {
            if (e.key == "ICMP.type" && (e.val == "3" || e.val == "11" || e.val == "12")) icmp_err = true;
            if (e.key == "ICMPv6.type" && (e.val == "1" || e.val == "3")) icmp6_err = true;
        }
        for (size_t j = 0; j < a.entries.size() && j < b.entries.size(); ++j) {
            const Entry &x = a.entries[j], &y = b.entries[j];
            if (icmp_err && (x.key == "ICMP.gateway" || x.key == "ICMP.id")) continue;
            if (icmp6_err && (x.key == "ICMPv6.identifier" || x.key == "ICMPv6.hop_limit" || x.key == "ICMPv6.router" || x.key == "ICMPv6.solicited" ||
                              x.key == "ICMPv6.override" || x.key == "ICMPv6.maximum_response_code")) continue;
            if (x.key != y.key) return "harness:view-key-mismatch|" + x.key + " vs " + y.key;
            if (always_derived(x.key)) continue;
            if (protocol_tag(x.key) && !raw_follows) continue;
            if (x.val != y.val) {
                std::string cls = x.key;
                return "roundtrip:field-changed:" + x.key + "|" + x.key + ": " + x.val.substr(0, 200) + " -> " + y.val.substr(0, 200);
            }
        }
    }
    // payload: empty payload == no payload; up to `pad` trailing zero bytes may appear
    if (p.payload != q.payload) {
        bool ok = false;
        if (q.payload.size() > p.payload.size() && q.payload.size() - p.payload.size() <= pad &&
            std::equal(p.payload.begin(), p.payload.end(), q.payload.begin())) {
            ok = true;
            for (size_t i = p.payload.size(); i < q.payload.size(); ++i) if (q.payload[i] != 0) ok = false;
        }
        if (!ok) return "roundtrip:payload-changed|payload " + std::to_string(p.payload.size()) + " bytes -> " + std::to_string(q.payload.size()) + " bytes (pad allowance " + std::to_string(pad) + ")";
    }
    return "";
}

}  // namespace mc
