// Reference dissector for C05: an independent reader of wire bytes written from the RFCs / IEEE layouts.
// It shares no arithmetic with libtins: own RFC 1071 sum (64-bit accumulator over big-endian words), own IPv4/IPv6
// pseudo headers, bitwise (table-free) CRC-32 for the 802.11 FCS, own protocol number tables.
//
//   ref::dissect_one(b, n, state)  reads ONE header at state.off inside [state.off, state.end) as protocol state.proto and
//                                  returns what the wire says: header length, the end of the bytes a length field claims
//                                  to govern, the protocol the next-protocol tag names, where the payload region is, the
//                                  pseudo-header context for the layers below, and a list of issues (bad checksum, length that
//                                  overruns / falls short of its region, malformed chain ...).
//   ref::dissect(b, n, link)       free-running walk: follows the tags from the link type until a tag names nothing known.
//
// No libtins header is included here on purpose.
#pragma once
#include <cstdint>
#include <cstdio>
#include <cstring>
#include <string>
#include <vector>

namespace ref {

enum Proto {
    P_NONE = 0, P_ETH, P_DOT3, P_VLAN, P_LLC, P_SNAP, P_STP, P_SLL, P_NULL, P_RADIOTAP, P_DOT11, P_PPPOED, P_PPPOES, P_PPP, P_MPLS,
    P_ARP, P_EAPOL, P_IP4, P_IP6, P_AH, P_ESP, P_TCP, P_UDP, P_ICMP, P_ICMP6, P_NPROTO
};
inline const char* pname(int p) {
    static const char* n[] = {"-", "eth", "dot3", "vlan", "llc", "snap", "stp", "sll", "null", "radiotap", "dot11", "pppoed", "pppoes", "ppp", "mpls",
                              "arp", "eapol", "ip", "ip6", "ah", "esp", "tcp", "udp", "icmp", "icmp6"};
    return p >= 0 && p < P_NPROTO ? n[p] : "?";
}

static const size_t NPOS = ~size_t(0);

inline uint16_t be16(const uint8_t* p) { return uint16_t(p[0] << 8 | p[1]); }
inline uint32_t be32(const uint8_t* p) { return uint32_t(p[0]) << 24 | uint32_t(p[1]) << 16 | uint32_t(p[2]) << 8 | p[3]; }
inline uint16_t le16(const uint8_t* p) { return uint16_t(p[1] << 8 | p[0]); }
inline uint32_t le32(const uint8_t* p) { return uint32_t(p[3]) << 24 | uint32_t(p[2]) << 16 | uint32_t(p[1]) << 8 | p[0]; }

// ---- RFC 1071: one's complement sum of big-endian 16-bit words, odd trailing byte padded with zero on the right
inline uint64_t sum1071(const uint8_t* p, size_t n, uint64_t acc = 0) {
    size_t i = 0;
    for (; i + 1 < n; i += 2) acc += uint64_t(p[i]) << 8 | p[i + 1];
    if (i < n) acc += uint64_t(p[i]) << 8;
    return acc;
}
inline uint16_t fold1071(uint64_t acc) {
    while (acc >> 16) acc = (acc & 0xffff) + (acc >> 16);
    return uint16_t(acc);
}
// a block whose checksum field is filled in verifies iff the folded sum over it (field included) is 0xffff
inline bool verifies(uint64_t acc) { return fold1071(acc) == 0xffff; }

// ---- CRC-32 (IEEE 802.3 / 802.11 FCS): reflected polynomial 0xEDB88320, init all ones, final complement; bit by bit
inline uint32_t crc32_ieee(const uint8_t* p, size_t n) {
    uint32_t c = 0xffffffffu;
    for (size_t i = 0; i < n; ++i) {
        c ^= p[i];
        for (int k = 0; k < 8; ++k) c = (c >> 1) ^ (0xEDB88320u & (0u - (c & 1u)));
    }
    return ~c;
}

// ---- pseudo header context handed down from IPv4 / IPv6 to the transport layer
struct Ctx {
    int ipver;              // 0 none, 4, 6
    const uint8_t* src;     // address bytes inside the frame
    const uint8_t* dst;
    bool direct;            // the layer sits directly inside IPv4 / IPv6 (possibly behind IPv6 extension headers)
    bool pad_ok;            // bytes after a self-delimiting layer are legitimate padding here (Ethernet minimum size, RFC 4884 zero fill)
    Ctx() : ipver(0), src(0), dst(0), direct(false), pad_ok(false) {}
};
inline uint64_t pseudo_sum(const Ctx& c, uint8_t proto, uint32_t upper_len) {
    uint64_t acc = 0;
    if (c.ipver == 4) {           // RFC 793 / 768: src, dst, zero, protocol, length
        acc = sum1071(c.src, 4, acc);
        acc = sum1071(c.dst, 4, acc);
        acc += proto;
        acc += upper_len & 0xffff;
    }
    else if (c.ipver == 6) {      // RFC 8200 8.1: src, dst, 32-bit upper-layer length, 3 zero bytes, next header
        acc = sum1071(c.src, 16, acc);
        acc = sum1071(c.dst, 16, acc);
        acc += (upper_len >> 16) & 0xffff;
        acc += upper_len & 0xffff;
        acc += proto;
    }
    return acc;
}

struct Issue { std::string sig, detail; };

struct State {
    Proto proto; size_t off, end; Ctx ctx;
    int max_ext;     // IPv6 only: walk at most this many extension headers (-1: follow the chain); used when the final next-header value is the user's, not derived
    State() : proto(P_NONE), off(0), end(0), max_ext(-1) {}
    State(Proto p, size_t o, size_t e, const Ctx& c = Ctx()) : proto(p), off(o), end(e), ctx(c), max_ext(-1) {}
};

struct ExtHdr { uint8_t type; size_t off, len; };

struct Layer {
    Proto proto;
    size_t off, hlen;
    bool hlen_from_wire;     // the header length was read from a length/offset field (ihl, data offset, ext chain, it_len, AH length)
    size_t claim_end;        // end of the bytes a length field of this header claims to govern, NPOS if the header has none
    const char* claim_name;
    Proto next;              // protocol of the payload for a decoder (P_NONE: unknown to this dissector / no tag / opaque payload)
    Proto tag_names;         // what the next-protocol tag names, also when the payload is opaque (fragment)
    long tag;                // raw tag value (-1 none)
    State child;             // region of the payload (valid when next != P_NONE)
    size_t payload_off, payload_end;   // payload region regardless of next
    bool opaque;             // payload must not be interpreted (fragment, ESP, protected 802.11 ...)
    bool self_delimiting;
    // checksum bookkeeping (for the evidence counters)
    int cksum_checked, cksum_bad;
    uint16_t cksum_wire;
    // protocol specific
    std::vector<ExtHdr> ext;           // IPv6 extension headers
    bool no_next_header;               // IPv6 chain ends in 59
    bool rfc4884;                      // ICMP/ICMPv6 error type that may carry a length octet + extension structure
    size_t orig_end;                   // end of the (padded) original datagram field of an ICMP error
    unsigned rfc4884_len;              // the length octet scaled to bytes
    bool ext_present, ext_ok; int ext_objects; size_t ext_off;
    bool fcs_present;
    int nd_options, mld_records;
    int vlan_id; int mpls_label; bool mpls_bos;
    std::vector<Issue> issues;
    Layer() : proto(P_NONE), off(0), hlen(0), hlen_from_wire(false), claim_end(NPOS), claim_name(""), next(P_NONE), tag_names(P_NONE), tag(-1), payload_off(0), payload_end(0),
              opaque(false), self_delimiting(false), cksum_checked(0), cksum_bad(0), cksum_wire(0), no_next_header(false), rfc4884(false), orig_end(0),
              rfc4884_len(0), ext_present(false), ext_ok(false), ext_objects(0), ext_off(0), fcs_present(false), nd_options(0), mld_records(-1), vlan_id(-1), mpls_label(-1), mpls_bos(false) {}
    void issue(const std::string& s, const std::string& d) { Issue i; i.sig = s; i.detail = d; issues.push_back(i); }
};

inline std::string num(unsigned long long v) { return std::to_string(v); }

// IEEE 802 numbers
inline Proto from_ethertype(unsigned t) {
    switch (t) {
        case 0x0800: return P_IP4;
        case 0x86dd: return P_IP6;
        case 0x0806: return P_ARP;
        case 0x8100: case 0x88a8: case 0x9100: return P_VLAN;
        case 0x8863: return P_PPPOED;
        case 0x8864: return P_PPPOES;
        case 0x8847: case 0x8848: return P_MPLS;
        case 0x888e: return P_EAPOL;
        default: return P_NONE;
    }
}
// IANA protocol numbers
inline Proto from_ipproto(unsigned p) {
    switch (p) {
        case 1: return P_ICMP;
        case 4: return P_IP4;
        case 6: return P_TCP;
        case 17: return P_UDP;
        case 41: return P_IP6;
        case 50: return P_ESP;
        case 51: return P_AH;
        case 58: return P_ICMP6;
        default: return P_NONE;
    }
}
inline bool is_ip6_ext(unsigned nh) { return nh == 0 || nh == 43 || nh == 44 || nh == 60 || nh == 135 || nh == 139 || nh == 140; }

inline bool all_zero(const uint8_t* b, size_t from, size_t to) { for (size_t i = from; i < to; ++i) if (b[i]) return false; return true; }

// RFC 4884 extension structure at [off, end): version 2, checksum over the whole structure, objects with 16-bit lengths
inline void check_ext_structure(const uint8_t* b, size_t off, size_t end, Layer& L) {
    L.ext_present = true; L.ext_off = off; L.ext_ok = true;
    if (end - off < 4) { L.ext_ok = false; L.issue("icmp-ext:truncated", "extension structure of " + num(end - off) + " bytes"); return; }
    if ((b[off] >> 4) != 2) { L.ext_ok = false; L.issue("icmp-ext:version", "extension header version " + num(b[off] >> 4)); }
    L.cksum_checked++;
    if (!verifies(sum1071(b + off, end - off))) { L.cksum_bad++; L.ext_ok = false; L.issue("cksum:icmp-extension-structure", "extension structure checksum " + num(be16(b + off + 2)) + " does not verify over " + num(end - off) + " bytes"); }
    size_t pos = off + 4;
    while (pos < end) {
        if (end - pos < 4) { L.ext_ok = false; L.issue("icmp-ext:object-length", "object header truncated"); break; }
        unsigned ol = be16(b + pos);
        if (ol < 4 || pos + ol > end) { L.ext_ok = false; L.issue("icmp-ext:object-length", "object length " + num(ol) + " with " + num(end - pos) + " bytes left"); break; }
        pos += ol; L.ext_objects++;
    }
}

// RFC 4884 handling shared by ICMP (unit 4, octet at +5) and ICMPv6 (unit 8, octet at +4); message = [off, end), original datagram at off+8
inline void rfc4884(const uint8_t* b, size_t off, size_t end, unsigned unit, unsigned octet, Layer& L) {
    L.rfc4884 = true;
    size_t body = off + 8;
    unsigned len = unsigned(b[off + octet]) * unit;
    L.rfc4884_len = len;
    L.orig_end = end;
    if (len) {
        if (body + len > end) { L.issue("icmp:rfc4884-length-overrun", "length octet announces " + num(len) + " bytes of original datagram, message has " + num(end - body)); return; }
        L.orig_end = body + len;
        if (L.orig_end < end) {
            if (len < 128) L.issue("icmp:rfc4884-original-below-128", "extension structure after only " + num(len) + " bytes of original datagram");
            check_ext_structure(b, L.orig_end, end, L);
        }
    }
    else if (end - body > 128) {
        // non-compliant (legacy) form: extension structure at offset 128 if and only if it validates
        size_t eo = body + 128;
        if (end - eo >= 4 && (b[eo] >> 4) == 2 && verifies(sum1071(b + eo, end - eo))) { L.orig_end = eo; check_ext_structure(b, eo, end, L); }
    }
}

inline Layer dissect_one(const uint8_t* b, size_t n, const State& s) {
    Layer L;
    L.proto = s.proto; L.off = s.off;
    const size_t off = s.off, end = s.end <= n ? s.end : n;
    const size_t avail = end > off ? end - off : 0;
    L.payload_off = L.payload_end = end;
    Ctx cc = s.ctx;          // context for the payload
    cc.direct = false;
    #define NEED(k, what) if (avail < (k)) { L.issue(std::string(pname(s.proto)) + ":truncated", std::string(what) + " needs " + num(k) + " bytes, region has " + num(avail)); L.hlen = avail; return L; }
    switch (s.proto) {
    case P_ETH: case P_DOT3: {
        NEED(14, "MAC header");
        unsigned t = be16(b + off + 12);
        L.hlen = 14; L.tag = t;
        cc.pad_ok = true; cc.ipver = 0;
        if (t >= 0x0600) { L.proto = P_ETH; L.next = from_ethertype(t); }
        else {
            L.proto = P_DOT3; L.next = P_LLC; L.claim_end = off + 14 + t; L.claim_name = "length"; L.self_delimiting = true;
            if (L.claim_end > end) L.issue("dot3:length-overrun", "802.3 length " + num(t) + " > " + num(end - off - 14) + " bytes present");
        }
        L.payload_off = off + 14; L.payload_end = (L.proto == P_DOT3 && L.claim_end <= end) ? L.claim_end : end;
        break;
    }
    case P_VLAN: {
        NEED(4, "802.1Q tag");
        unsigned t = be16(b + off + 2);
        L.hlen = 4; L.tag = t; L.vlan_id = be16(b + off) & 0x0fff;
        L.next = t >= 0x0600 ? from_ethertype(t) : P_NONE;
        cc.pad_ok = true;
        L.payload_off = off + 4; L.payload_end = end;
        break;
    }
    case P_SLL: {
        NEED(16, "cooked header");
        unsigned t = be16(b + off + 14);
        L.hlen = 16; L.tag = t; L.next = t >= 0x0600 ? from_ethertype(t) : P_NONE;
        L.payload_off = off + 16; L.payload_end = end;
        break;
    }
    case P_NULL: {
        NEED(4, "loopback header");
        uint32_t fam; memcpy(&fam, b + off, 4);            // host byte order of the writing machine (this one)
        L.hlen = 4; L.tag = long(fam);
        // LINKTYPE_NULL: 2 = IPv4; 24 / 28 / 30 = IPv6 (BSDs, Darwin); Linux AF_INET6 = 10 and AF_LLC = 26 as written by a Linux host
        L.next = fam == 2 ? P_IP4 : (fam == 24 || fam == 28 || fam == 30 || fam == 10) ? P_IP6 : fam == 26 ? P_LLC : P_NONE;
        L.payload_off = off + 4; L.payload_end = end;
        break;
    }
    case P_LLC: case P_SNAP: {
        NEED(3, "LLC header");
        unsigned dsap = b[off], ssap = b[off + 1], ctl = b[off + 2];
        if (dsap == 0xaa && ssap == 0xaa && ctl == 0x03) {       // RFC 1042 SNAP
            NEED(8, "LLC/SNAP header");
            L.proto = P_SNAP; L.hlen = 8;
            unsigned oui = unsigned(b[off + 3]) << 16 | unsigned(b[off + 4]) << 8 | b[off + 5];
            unsigned t = be16(b + off + 6);
            L.tag = t;
            L.next = (oui == 0 || oui == 0x0000f8) && t >= 0x0600 ? from_ethertype(t) : P_NONE;
        }
        else {
            L.proto = P_LLC;
            L.hlen = (ctl & 3) == 3 ? 3 : 4;
            if (avail < L.hlen) L.hlen = avail;
            L.tag = long(dsap << 8 | ssap);
            L.next = (dsap == 0x42 && ssap == 0x42) ? P_STP : P_NONE;
        }
        L.payload_off = off + L.hlen; L.payload_end = end;
        break;
    }
    case P_STP: { L.hlen = avail < 35 ? avail : 35; L.payload_off = off + L.hlen; L.payload_end = end; break; }
    case P_RADIOTAP: {
        NEED(8, "radiotap header");
        unsigned len = le16(b + off + 2);
        L.hlen = len; L.hlen_from_wire = true; L.claim_name = "it_len";
        if (len < 8 || len > avail) { L.issue("radiotap:length", "it_len " + num(len) + " with " + num(avail) + " bytes"); L.hlen = avail; return L; }
        // present words
        size_t p = off + 4; uint32_t first = le32(b + p); uint32_t w = first; p += 4;
        bool ok = true;
        while (w & 0x80000000u) { if (p + 4 > off + len) { ok = false; break; } w = le32(b + p); p += 4; }
        bool fcs = false;
        if (ok && (first & 2)) {          // FLAGS present; TSFT (bit 0) precedes it: 8 bytes aligned to 8
            size_t fo = p - off;
            if (first & 1) { fo = (fo + 7) & ~size_t(7); fo += 8; }
            if (fo < len) fcs = (b[off + fo] & 0x10) != 0;
        }
        L.next = P_DOT11;
        L.payload_off = off + len; L.payload_end = end;
        if (fcs) {
            L.fcs_present = true;
            if (end - (off + len) < 4) L.issue("radiotap:fcs-missing", "FCS flag set, " + num(end - off - len) + " bytes after the header");
            else {
                L.payload_end = end - 4;
                uint32_t want = crc32_ieee(b + off + len, L.payload_end - (off + len)), got = le32(b + end - 4);
                L.cksum_checked++;
                if (want != got) { L.cksum_bad++; char t[96]; snprintf(t, sizeof t, "FCS on the wire %08x, CRC-32 of the %zu frame bytes %08x", got, L.payload_end - (off + len), want); L.issue("cksum:radiotap-fcs", t); }
            }
        }
        break;
    }
    case P_DOT11: {
        NEED(10, "802.11 header");
        unsigned fc0 = b[off], fc1 = b[off + 1];
        unsigned type = (fc0 >> 2) & 3, sub = fc0 >> 4;
        if (type == 2) {
            size_t h = 24 + ((fc1 & 3) == 3 ? 6 : 0) + ((sub & 8) ? 2 : 0);
            if (avail < h) { L.hlen = avail; break; }
            L.hlen = h;
            L.payload_off = off + h; L.payload_end = end;
            if ((fc1 & 0x40) || (sub & 4)) L.opaque = true;          // protected or null-data subtypes
            else if (end - (off + h) >= 3) L.next = P_LLC;
        }
        else { L.hlen = avail; L.opaque = true; }
        break;
    }
    case P_PPPOED: case P_PPPOES: {
        NEED(6, "PPPoE header");
        unsigned len = be16(b + off + 4);
        L.hlen = 6; L.claim_end = off + 6 + len; L.claim_name = "payload_length"; L.self_delimiting = true; L.tag = b[off + 1];
        if (L.claim_end > end) { L.issue("pppoe:payload_length-overrun", "payload_length " + num(len) + " > " + num(end - off - 6) + " bytes present"); break; }
        if (L.claim_end < end && !s.ctx.pad_ok) L.issue("pppoe:payload_length-short", "payload_length " + num(len) + " < " + num(end - off - 6) + " bytes present");
        L.payload_off = off + 6; L.payload_end = L.claim_end;
        if (s.proto == P_PPPOES) { if (len >= 2) L.next = P_PPP; }
        else {
            size_t p = off + 6;
            while (p < L.claim_end) {
                if (L.claim_end - p < 4) { L.issue("pppoe:tag-length", "tag header truncated"); break; }
                unsigned tl = be16(b + p + 2);
                if (p + 4 + tl > L.claim_end) { L.issue("pppoe:tag-length", "tag length " + num(tl) + " with " + num(L.claim_end - p - 4) + " bytes left"); break; }
                p += 4 + tl;
            }
        }
        cc.pad_ok = false;
        break;
    }
    case P_PPP: {
        NEED(2, "PPP protocol");
        unsigned pr = be16(b + off);
        L.hlen = 2; L.tag = pr; L.next = pr == 0x0021 ? P_IP4 : pr == 0x0057 ? P_IP6 : P_NONE;
        L.payload_off = off + 2; L.payload_end = end;
        break;
    }
    case P_MPLS: {
        NEED(4, "MPLS label");
        uint32_t w = be32(b + off);
        L.hlen = 4; L.mpls_label = int(w >> 12); L.mpls_bos = (w >> 8) & 1; L.tag = L.mpls_bos;
        if (!L.mpls_bos) L.next = P_MPLS;
        else if (avail > 4) { unsigned v = b[off + 4] >> 4; L.next = v == 4 ? P_IP4 : v == 6 ? P_IP6 : P_NONE; }
        L.payload_off = off + 4; L.payload_end = end;
        break;
    }
    case P_ARP: {
        NEED(8, "ARP header");
        size_t h = 8 + 2 * size_t(b[off + 4]) + 2 * size_t(b[off + 5]);
        L.hlen = h <= avail ? h : avail;
        if (b[off + 4] == 6 && b[off + 5] == 4 && h <= avail) { L.self_delimiting = true; L.payload_end = off + h; }
        L.payload_off = off + L.hlen;
        L.opaque = true;
        break;
    }
    case P_EAPOL: {
        NEED(4, "EAPOL header");
        unsigned len = be16(b + off + 2);
        L.hlen = 4; L.claim_end = off + 4 + len; L.claim_name = "length"; L.self_delimiting = true;
        if (L.claim_end > end) L.issue("eapol:length-overrun", "length " + num(len) + " > " + num(end - off - 4) + " bytes present");
        else if (L.claim_end < end && !s.ctx.pad_ok) L.issue("eapol:length-short", "length " + num(len) + " < " + num(end - off - 4) + " bytes present");
        L.payload_off = off + 4; L.payload_end = L.claim_end <= end ? L.claim_end : end;
        L.opaque = true;
        break;
    }
    case P_IP4: {
        NEED(20, "IPv4 header");
        unsigned ver = b[off] >> 4, ihl = (b[off] & 15) * 4u, tot = be16(b + off + 2);
        (void)ver;      // the version nibble is a user field, not derived
        L.hlen = ihl; L.hlen_from_wire = true;
        if (ihl < 20 || ihl > avail) { L.issue("ip:ihl", "header length " + num(ihl) + " with " + num(avail) + " bytes"); L.hlen = avail < 20 ? avail : 20; return L; }
        L.claim_end = off + tot; L.claim_name = "tot_len"; L.self_delimiting = true;
        L.cksum_checked++; L.cksum_wire = be16(b + off + 10);
        if (!verifies(sum1071(b + off, ihl))) { L.cksum_bad++; L.issue("cksum:ip-header", "IPv4 header checksum " + num(L.cksum_wire) + " does not verify over " + num(ihl) + " header bytes"); }
        L.tag = b[off + 9];
        if (tot < ihl) { L.issue("ip:tot_len-below-header", "tot_len " + num(tot) + " < header length " + num(ihl)); break; }
        if (L.claim_end > end) { L.issue("ip:tot_len-overrun", "tot_len " + num(tot) + " > " + num(avail) + " bytes present"); break; }
        if (L.claim_end < end && !s.ctx.pad_ok) L.issue("ip:tot_len-short", "tot_len " + num(tot) + " < " + num(avail) + " bytes present");
        L.payload_off = off + ihl; L.payload_end = L.claim_end;
        unsigned fo = be16(b + off + 6);
        if ((fo & 0x1fff) || (fo & 0x2000)) L.opaque = true;      // a fragment: the payload is not a complete upper-layer unit
        L.next = from_ipproto(b[off + 9]);
        cc.ipver = 4; cc.src = b + off + 12; cc.dst = b + off + 16; cc.direct = true; cc.pad_ok = false;
        break;
    }
    case P_IP6: {
        NEED(40, "IPv6 header");
        unsigned plen = be16(b + off + 4);
        L.claim_end = off + 40 + plen; L.claim_name = "payload_length"; L.self_delimiting = true; L.hlen_from_wire = true;
        L.hlen = 40;
        if (L.claim_end > end) { L.issue("ip6:payload_length-overrun", "payload_length " + num(plen) + " > " + num(avail - 40) + " bytes present"); break; }
        if (L.claim_end < end && !s.ctx.pad_ok) L.issue("ip6:payload_length-short", "payload_length " + num(plen) + " < " + num(avail - 40) + " bytes present");
        unsigned nh = b[off + 6];
        size_t pos = off + 40;
        bool frag = false, broken = false;
        while (is_ip6_ext(nh) && (s.max_ext < 0 || (int)L.ext.size() < s.max_ext)) {
            if (L.claim_end - pos < 8) { L.issue("ip6:ext-header-truncated", "next header " + num(nh) + " announced with " + num(L.claim_end - pos) + " bytes left"); broken = true; break; }
            size_t hl = nh == 44 ? 8 : (size_t(b[pos + 1]) + 1) * 8;
            if (pos + hl > L.claim_end) { L.issue("ip6:ext-header-overrun", "extension header " + num(nh) + " of " + num(hl) + " bytes with " + num(L.claim_end - pos) + " left"); broken = true; break; }
            if (nh == 44 && ((be16(b + pos + 2) & 0xfff8) || (b[pos + 3] & 1))) frag = true;
            ExtHdr e; e.type = uint8_t(nh); e.off = pos; e.len = hl; L.ext.push_back(e);
            nh = b[pos]; pos += hl;
        }
        L.hlen = pos - off; L.tag = nh;
        L.payload_off = pos; L.payload_end = L.claim_end;
        if (broken) break;
        if (nh == 59) L.no_next_header = true;
        L.next = from_ipproto(nh);
        if (frag) L.opaque = true;
        cc.ipver = 6; cc.src = b + off + 8; cc.dst = b + off + 24; cc.direct = true; cc.pad_ok = false;
        break;
    }
    case P_AH: {
        NEED(12, "AH header");
        size_t h = (size_t(b[off + 1]) + 2) * 4;
        L.hlen = h; L.hlen_from_wire = true; L.claim_name = "length"; L.tag = b[off];
        if (h < 12 || h > avail) { L.issue("ah:length", "payload len octet " + num(b[off + 1]) + " = " + num(h) + " bytes with " + num(avail) + " present"); L.hlen = avail < 12 ? avail : 12; return L; }
        L.next = from_ipproto(b[off]);
        L.payload_off = off + h; L.payload_end = end;
        cc.direct = false;      // not DIRECTLY inside IPv4 / IPv6 any more
        break;
    }
    case P_ESP: { L.hlen = avail < 8 ? avail : 8; L.opaque = true; L.payload_off = off + L.hlen; L.payload_end = end; break; }
    case P_TCP: {
        NEED(20, "TCP header");
        size_t h = (b[off + 12] >> 4) * 4u;
        L.hlen = h; L.hlen_from_wire = true; L.claim_name = "data_offset";
        if (h < 20 || h > avail) { L.issue("tcp:data_offset", "data offset " + num(h) + " with " + num(avail) + " bytes"); L.hlen = 20; }
        L.cksum_wire = be16(b + off + 16);
        if (s.ctx.direct) {
            L.cksum_checked++;
            if (!verifies(pseudo_sum(s.ctx, 6, uint32_t(avail)) + sum1071(b + off, avail))) { L.cksum_bad++; L.issue(std::string("cksum:tcp-over-ipv") + (s.ctx.ipver == 4 ? "4" : "6"), "TCP checksum " + num(L.cksum_wire) + " does not verify over pseudo header + " + num(avail) + " bytes"); }
        }
        L.payload_off = off + L.hlen; L.payload_end = end; L.opaque = true;
        break;
    }
    case P_UDP: {
        NEED(8, "UDP header");
        unsigned len = be16(b + off + 4);
        L.hlen = 8; L.claim_end = off + len; L.claim_name = "length"; L.self_delimiting = true;
        L.cksum_wire = be16(b + off + 6);
        L.payload_off = off + 8; L.payload_end = end; L.opaque = true;
        if (len < 8) { L.issue("udp:length-below-header", "length " + num(len)); break; }
        if (L.claim_end > end) { L.issue("udp:length-overrun", "length " + num(len) + " > " + num(avail) + " bytes present"); break; }
        if (L.claim_end < end && !s.ctx.pad_ok) L.issue("udp:length-short", "length " + num(len) + " < " + num(avail) + " bytes present");
        L.payload_end = L.claim_end;
        if (s.ctx.direct) {
            L.cksum_checked++;
            if (L.cksum_wire == 0) { L.cksum_bad++; L.issue(std::string("cksum:udp-zero-over-ipv") + (s.ctx.ipver == 4 ? "4" : "6"), "UDP checksum field is 0 (= not computed); a computed 0 must be sent as 0xffff"); }
            else if (!verifies(pseudo_sum(s.ctx, 17, len) + sum1071(b + off, len))) { L.cksum_bad++; L.issue(std::string("cksum:udp-over-ipv") + (s.ctx.ipver == 4 ? "4" : "6"), "UDP checksum " + num(L.cksum_wire) + " does not verify over pseudo header + " + num(len) + " bytes"); }
        }
        break;
    }
    case P_ICMP: {
        NEED(8, "ICMP header");
        unsigned type = b[off];
        L.hlen = (type == 13 || type == 14) ? 20 : (type == 17 || type == 18) ? 12 : 8;
        if (L.hlen > avail) L.hlen = avail;
        L.cksum_checked++; L.cksum_wire = be16(b + off + 2);
        if (!verifies(sum1071(b + off, avail))) { L.cksum_bad++; L.issue("cksum:icmp", "ICMP checksum " + num(L.cksum_wire) + " does not verify over " + num(avail) + " bytes"); }
        L.payload_off = off + L.hlen; L.payload_end = end; L.orig_end = end;
        if (type == 3 || type == 11 || type == 12) { rfc4884(b, off, end, 4, 5, L); L.payload_end = L.orig_end; }
        if (type == 3 || type == 4 || type == 5 || type == 11 || type == 12) { if (L.payload_end - L.payload_off >= 20) L.next = P_IP4; cc.pad_ok = true; cc.ipver = 0; }
        else L.opaque = true;
        break;
    }
    case P_ICMP6: {
        NEED(8, "ICMPv6 header");
        unsigned type = b[off];
        L.hlen = 8;
        L.cksum_wire = be16(b + off + 2);
        if (s.ctx.direct && s.ctx.ipver == 6) {
            L.cksum_checked++;
            if (!verifies(pseudo_sum(s.ctx, 58, uint32_t(avail)) + sum1071(b + off, avail))) { L.cksum_bad++; L.issue("cksum:icmpv6", "ICMPv6 checksum " + num(L.cksum_wire) + " does not verify over pseudo header + " + num(avail) + " bytes"); }
        }
        L.payload_off = off + 8; L.payload_end = end; L.orig_end = end;
        if (type == 1 || type == 3) { rfc4884(b, off, end, 8, 4, L); L.payload_end = L.orig_end; }
        if (type >= 1 && type <= 4) { if (L.payload_end - L.payload_off >= 40) L.next = P_IP6; cc.pad_ok = true; cc.ipver = 0; }
        else L.opaque = true;
        // RFC 4861 neighbour discovery options: type, length in units of 8 octets (0 is invalid), laid end to end up to the end of the message
        size_t nd = type == 133 ? 8 : type == 134 ? 16 : (type == 135 || type == 136) ? 24 : type == 137 ? 40 : 0;
        if (nd && off + nd <= end) {
            size_t pos = off + nd;
            while (pos < end) {
                if (end - pos < 2) { L.issue("icmpv6:nd-option-truncated", num(end - pos) + " byte left after the last option"); break; }
                size_t ol = size_t(b[pos + 1]) * 8;
                if (ol == 0) { L.issue("icmpv6:nd-option-length-zero", "option type " + num(b[pos]) + " with length 0"); break; }
                if (pos + ol > end) { L.issue("icmpv6:nd-option-overrun", "option type " + num(b[pos]) + " of " + num(ol) + " bytes with " + num(end - pos) + " left"); break; }
                pos += ol; L.nd_options++;
            }
        }
        // RFC 3810 MLDv2 report: number of multicast address records, each 20 + 16 * sources + 4 * aux words
        if (type == 143) {
            unsigned nrec = be16(b + off + 6); size_t pos = off + 8; unsigned k = 0;
            for (; k < nrec; ++k) {
                if (end - pos < 20) break;
                size_t rl = 20 + 16 * size_t(be16(b + pos + 2)) + 4 * size_t(b[pos + 1]);
                if (pos + rl > end) break;
                pos += rl;
            }
            L.mld_records = int(nrec);
            if (k != nrec) L.issue("icmpv6:mld2-record-count", "header announces " + num(nrec) + " records, " + num(k) + " fit in the message");
            else if (pos != end) L.issue("icmpv6:mld2-trailing-bytes", num(end - pos) + " bytes after the " + num(nrec) + " announced records");
        }
        break;
    }
    default: L.hlen = 0; break;
    }
    #undef NEED
    L.tag_names = L.next;
    if (L.opaque) L.next = P_NONE;
    L.child = State(L.next, L.payload_off, L.payload_end, cc);
    return L;
}

inline Proto normalize_root(Proto link) { return link; }

// free-running walk: follow the tags from the link type
inline std::vector<Layer> dissect(const uint8_t* b, size_t n, Proto link, size_t off = 0, size_t end = NPOS, const Ctx& ctx = Ctx()) {
    std::vector<Layer> out;
    State s(link, off, end == NPOS ? n : end, ctx);
    for (int depth = 0; depth < 32 && s.proto != P_NONE; ++depth) {
        Layer L = dissect_one(b, n, s);
        State c = L.child;
        bool stop = L.next == P_NONE || c.off >= c.end;
        out.push_back(L);
        if (stop) break;
        s = c;
    }
    return out;
}

inline std::string sequence(const std::vector<Layer>& v) { std::string s; for (size_t i = 0; i < v.size(); ++i) { if (i) s += "/"; s += pname(v[i].proto); } return s; }

// Ethernet II minimum frame rule on the bytes of one Ethernet frame [off, end): the frame is at least 60 bytes (FCS not included);
// if the content (what the headers' own length fields delimit) ends before the frame does, the rest is padding: all zero, and the
// padded frame is exactly 60 bytes plus 4 per 802.1Q tag that itself pads (a tagged frame may keep its untagged minimum).
inline void check_eth_padding(const uint8_t* b, size_t off, size_t end, size_t content_end, int ntags, std::vector<Issue>& out) {
    size_t flen = end - off;
    Issue i;
    if (flen < 60) { i.sig = "eth:frame-below-60"; i.detail = "Ethernet II frame of " + num(flen) + " bytes"; out.push_back(i); return; }
    if (content_end < end) {
        if (!all_zero(b, content_end, end)) { i.sig = "eth:padding-not-zero"; i.detail = "non-zero byte in the " + num(end - content_end) + " padding bytes"; out.push_back(i); }
        bool ok = false;
        for (int k = 0; k <= ntags; ++k) if (flen == size_t(60 + 4 * k)) ok = true;
        if (!ok) { i.sig = "eth:padded-beyond-minimum"; i.detail = "frame carries " + num(end - content_end) + " padding bytes although it is " + num(flen) + " bytes long (" + num(ntags) + " tags)"; out.push_back(i); }
    }
}

}  // namespace ref
