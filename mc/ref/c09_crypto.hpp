// C09 reference side: independent 802.11 encryptors and key derivation, written from
// IEEE 802.11-2012 (11.2.2 WEP, 11.4.2 TKIP, 11.4.3 CCMP, 11.6.1.2 PRF, 11.6.3 EAPOL-Key) and
// RFC 2898 (PBKDF2).  Nothing in here includes or copies libtins code: RC4, CRC-32, the TKIP
// S-box (derived algebraically from the AES S-box), the phase-1/2 mixing and Michael are
// written out; CCM comes from OpenSSL's EVP_aes_128_ccm (libtins hand-rolls CTR + CBC-MAC on
// AES_encrypt), HMAC-SHA1/MD5 from OpenSSL's HMAC() with PBKDF2 / PRF iterated here.
// selftest() checks the pieces against the published test vectors before anything is judged.
#pragma once
#include <cstdint>
#include <cstring>
#include <string>
#include <vector>
#include <openssl/evp.h>
#include <openssl/hmac.h>

namespace c09 {

typedef std::vector<uint8_t> Bytes;

// ---------------------------------------------------------------- CRC-32 (bitwise, reflected, IEEE 802.3)
inline uint32_t crc32(const uint8_t* p, size_t n) {
    uint32_t c = 0xffffffffu;
    for (size_t i = 0; i < n; ++i) {
        c ^= p[i];
        for (int k = 0; k < 8; ++k) c = (c >> 1) ^ (0xEDB88320u & (0u - (c & 1)));
    }
    return ~c;
}

// ---------------------------------------------------------------- RC4
struct RC4 {
    uint8_t S[256]; unsigned i, j;
    RC4(const uint8_t* key, size_t n) : i(0), j(0) {
        for (unsigned k = 0; k < 256; ++k) S[k] = (uint8_t)k;
        unsigned b = 0;
        for (unsigned k = 0; k < 256; ++k) { b = (b + S[k] + key[k % n]) & 255; uint8_t t = S[k]; S[k] = S[b]; S[b] = t; }
    }
    uint8_t next() {
        i = (i + 1) & 255; j = (j + S[i]) & 255;
        uint8_t t = S[i]; S[i] = S[j]; S[j] = t;
        return S[(S[i] + S[j]) & 255];
    }
    void crypt(uint8_t* p, size_t n) { for (size_t k = 0; k < n; ++k) p[k] ^= next(); }
};

// ---------------------------------------------------------------- WEP (11.2.2): IV(3) | keyid<<6 | RC4(iv|key)(data | ICV)
inline Bytes wep_encrypt(const Bytes& key, const uint8_t iv[3], int key_id, const Bytes& data) {
    Bytes seed(iv, iv + 3);
    seed.insert(seed.end(), key.begin(), key.end());
    Bytes body(data);
    uint32_t icv = crc32(data.data(), data.size());
    for (int k = 0; k < 4; ++k) body.push_back(uint8_t(icv >> (8 * k)));
    RC4 r(seed.data(), seed.size());
    r.crypt(body.data(), body.size());
    Bytes out(iv, iv + 3);
    out.push_back(uint8_t(key_id << 6));
    out.insert(out.end(), body.begin(), body.end());
    return out;
}

// ---------------------------------------------------------------- AES S-box, algebraically (FIPS-197 5.1.1)
inline uint8_t gf_mul(uint8_t a, uint8_t b) {
    uint8_t r = 0;
    while (b) { if (b & 1) r ^= a; a = uint8_t((a << 1) ^ ((a & 0x80) ? 0x1b : 0)); b >>= 1; }
    return r;
}
inline uint8_t aes_sbox(uint8_t x) {
    uint8_t inv = 0;
    if (x) for (unsigned y = 1; y < 256; ++y) if (gf_mul(x, (uint8_t)y) == 1) { inv = (uint8_t)y; break; }
    uint8_t s = inv, r = inv;
    for (int k = 0; k < 4; ++k) { r = uint8_t((r << 1) | (r >> 7)); s ^= r; }
    return s ^ 0x63;
}
// TKIP 16-bit S-box (11.4.2.5.2): table entry for byte b is ({02}.s)<<8 | ({03}.s) with s = AES S-box of b;
// _S_(v) = T[Lo8(v)] ^ byteswap(T[Hi8(v)])
struct TkipS {
    uint16_t T[256];
    TkipS() { for (unsigned b = 0; b < 256; ++b) { uint8_t s = aes_sbox((uint8_t)b); T[b] = uint16_t(gf_mul(s, 2) << 8 | gf_mul(s, 3)); } }
    uint16_t operator()(uint16_t v) const { uint16_t h = T[v >> 8]; return T[v & 255] ^ uint16_t((h << 8) | (h >> 8)); }
};
inline const TkipS& tkip_s() { static TkipS s; return s; }
inline uint16_t mk16(uint8_t hi, uint8_t lo) { return uint16_t(hi << 8 | lo); }
inline uint16_t rotr1(uint16_t v) { return uint16_t((v >> 1) | (v << 15)); }
inline uint16_t tk16(const uint8_t* tk, int n) { return mk16(tk[2 * n + 1], tk[2 * n]); }

// phase 1: TTAK from TK, TA and IV32 (= TSC5..TSC2, TSC5 most significant)
inline void tkip_phase1(uint16_t ttak[5], const uint8_t tk[16], const uint8_t ta[6], uint32_t iv32) {
    const TkipS& S = tkip_s();
    ttak[0] = uint16_t(iv32 & 0xffff); ttak[1] = uint16_t(iv32 >> 16);
    ttak[2] = mk16(ta[1], ta[0]); ttak[3] = mk16(ta[3], ta[2]); ttak[4] = mk16(ta[5], ta[4]);
    for (unsigned i = 0; i < 8; ++i) {
        unsigned j = 2 * (i & 1);
        ttak[0] = uint16_t(ttak[0] + S(ttak[4] ^ mk16(tk[1 + j], tk[0 + j])));
        ttak[1] = uint16_t(ttak[1] + S(ttak[0] ^ mk16(tk[5 + j], tk[4 + j])));
        ttak[2] = uint16_t(ttak[2] + S(ttak[1] ^ mk16(tk[9 + j], tk[8 + j])));
        ttak[3] = uint16_t(ttak[3] + S(ttak[2] ^ mk16(tk[13 + j], tk[12 + j])));
        ttak[4] = uint16_t(ttak[4] + S(ttak[3] ^ mk16(tk[1 + j], tk[0 + j])) + i);
    }
}
// phase 2: 16-byte RC4 key from TTAK, TK and IV16 (= TSC1<<8 | TSC0)
inline void tkip_phase2(uint8_t rc4key[16], const uint16_t ttak[5], const uint8_t tk[16], uint16_t iv16) {
    const TkipS& S = tkip_s();
    uint16_t p[6];
    for (int k = 0; k < 5; ++k) p[k] = ttak[k];
    p[5] = uint16_t(ttak[4] + iv16);
    p[0] = uint16_t(p[0] + S(p[5] ^ tk16(tk, 0)));
    p[1] = uint16_t(p[1] + S(p[0] ^ tk16(tk, 1)));
    p[2] = uint16_t(p[2] + S(p[1] ^ tk16(tk, 2)));
    p[3] = uint16_t(p[3] + S(p[2] ^ tk16(tk, 3)));
    p[4] = uint16_t(p[4] + S(p[3] ^ tk16(tk, 4)));
    p[5] = uint16_t(p[5] + S(p[4] ^ tk16(tk, 5)));
    p[0] = uint16_t(p[0] + rotr1(p[5] ^ tk16(tk, 6)));
    p[1] = uint16_t(p[1] + rotr1(p[0] ^ tk16(tk, 7)));
    p[2] = uint16_t(p[2] + rotr1(p[1]));
    p[3] = uint16_t(p[3] + rotr1(p[2]));
    p[4] = uint16_t(p[4] + rotr1(p[3]));
    p[5] = uint16_t(p[5] + rotr1(p[4]));
    rc4key[0] = uint8_t(iv16 >> 8);
    rc4key[1] = uint8_t(((iv16 >> 8) | 0x20) & 0x7f);
    rc4key[2] = uint8_t(iv16 & 0xff);
    rc4key[3] = uint8_t((p[5] ^ tk16(tk, 0)) >> 1);
    for (int k = 0; k < 6; ++k) { rc4key[4 + 2 * k] = uint8_t(p[k] & 0xff); rc4key[5 + 2 * k] = uint8_t(p[k] >> 8); }
}

// ---------------------------------------------------------------- Michael (11.4.2.3)
inline uint32_t rol32(uint32_t v, int n) { return (v << n) | (v >> (32 - n)); }
inline uint32_t ror32(uint32_t v, int n) { return (v >> n) | (v << (32 - n)); }
inline uint32_t le32(const uint8_t* p) { return p[0] | p[1] << 8 | p[2] << 16 | (uint32_t)p[3] << 24; }
inline void michael(const uint8_t key[8], const Bytes& msg, uint8_t mic[8]) {
    uint32_t l = le32(key), r = le32(key + 4);
    Bytes m(msg);
    m.push_back(0x5a);
    for (int k = 0; k < 4; ++k) m.push_back(0);
    while (m.size() % 4) m.push_back(0);
    for (size_t i = 0; i < m.size(); i += 4) {
        l ^= le32(&m[i]);
        r ^= rol32(l, 17); l += r;
        r ^= ((l & 0xff00ff00u) >> 8) | ((l & 0x00ff00ffu) << 8); l += r;
        r ^= rol32(l, 3); l += r;
        r ^= ror32(l, 2); l += r;
    }
    for (int k = 0; k < 4; ++k) { mic[k] = uint8_t(l >> (8 * k)); mic[4 + k] = uint8_t(r >> (8 * k)); }
}

// ---------------------------------------------------------------- TKIP MPDU body (11.4.2.1.1):
// TSC1 | WEPSeed | TSC0 | keyid<<6|ExtIV | TSC2 TSC3 TSC4 TSC5 | RC4(data | Michael MIC | ICV)
inline Bytes tkip_encrypt(const uint8_t tk[16], const uint8_t mic_key[8], const uint8_t ta[6], const uint8_t da[6],
                          const uint8_t sa[6], int priority, uint64_t tsc, int key_id, const Bytes& data) {
    Bytes mm(da, da + 6);
    mm.insert(mm.end(), sa, sa + 6);
    mm.push_back(uint8_t(priority)); mm.push_back(0); mm.push_back(0); mm.push_back(0);
    mm.insert(mm.end(), data.begin(), data.end());
    uint8_t mic[8];
    michael(mic_key, mm, mic);
    Bytes body(data);
    body.insert(body.end(), mic, mic + 8);
    uint32_t icv = crc32(body.data(), body.size());
    for (int k = 0; k < 4; ++k) body.push_back(uint8_t(icv >> (8 * k)));
    uint16_t ttak[5];
    uint8_t key[16];
    tkip_phase1(ttak, tk, ta, uint32_t(tsc >> 16));
    tkip_phase2(key, ttak, tk, uint16_t(tsc & 0xffff));
    RC4 r(key, 16);
    r.crypt(body.data(), body.size());
    Bytes out;
    out.push_back(uint8_t(tsc >> 8));
    out.push_back(uint8_t(((tsc >> 8) | 0x20) & 0x7f));
    out.push_back(uint8_t(tsc));
    out.push_back(uint8_t(0x20 | (key_id << 6)));
    for (int k = 2; k < 6; ++k) out.push_back(uint8_t(tsc >> (8 * k)));
    out.insert(out.end(), body.begin(), body.end());
    return out;
}

// ---------------------------------------------------------------- CCMP (11.4.3): header | CCM(M=8, L=2)(data)
// mac_hdr = the MPDU header bytes as transmitted (24, 26, 30 or 32 octets)
inline Bytes ccmp_aad(const Bytes& h) {
    bool four = (h[1] & 3) == 3, qos = (h[0] & 0x80) != 0;
    Bytes a;
    a.push_back(uint8_t(h[0] & 0x8f));                             // subtype bits 4..6 masked
    a.push_back(uint8_t((h[1] & ~0x38 & (qos ? ~0x80 : ~0)) | 0x40));   // retry, pwr mgt, more data masked; protected = 1; order masked in QoS
    a.insert(a.end(), h.begin() + 4, h.begin() + 22);              // A1 A2 A3
    a.push_back(uint8_t(h[22] & 0x0f)); a.push_back(0);            // sequence number masked, fragment number kept
    size_t o = 24;
    if (four) { a.insert(a.end(), h.begin() + 24, h.begin() + 30); o = 30; }
    if (qos) { a.push_back(uint8_t(h[o] & 0x0f)); a.push_back(0); }   // TID only
    return a;
}
inline Bytes ccmp_encrypt(const uint8_t tk[16], const Bytes& mac_hdr, uint64_t pn, int key_id, const Bytes& data, bool* ok = 0) {
    bool four = (mac_hdr[1] & 3) == 3, qos = (mac_hdr[0] & 0x80) != 0;
    uint8_t nonce[13];
    nonce[0] = qos ? uint8_t(mac_hdr[four ? 30 : 24] & 0x0f) : 0;
    memcpy(nonce + 1, &mac_hdr[10], 6);
    for (int k = 0; k < 6; ++k) nonce[7 + k] = uint8_t(pn >> (8 * (5 - k)));
    Bytes aad = ccmp_aad(mac_hdr);
    Bytes ct(data.size() + 16), tag(8);
    int len = 0, good = 1;
    EVP_CIPHER_CTX* c = EVP_CIPHER_CTX_new();
    good &= EVP_EncryptInit_ex(c, EVP_aes_128_ccm(), 0, 0, 0);
    good &= EVP_CIPHER_CTX_ctrl(c, EVP_CTRL_CCM_SET_IVLEN, 13, 0);
    good &= EVP_CIPHER_CTX_ctrl(c, EVP_CTRL_CCM_SET_TAG, 8, 0);
    good &= EVP_EncryptInit_ex(c, 0, 0, tk, nonce);
    good &= EVP_EncryptUpdate(c, 0, &len, 0, (int)data.size());
    good &= EVP_EncryptUpdate(c, 0, &len, aad.data(), (int)aad.size());
    static const uint8_t none = 0;
    good &= EVP_EncryptUpdate(c, ct.data(), &len, data.empty() ? &none : data.data(), (int)data.size());
    int fin = 0;
    good &= EVP_EncryptFinal_ex(c, ct.data() + len, &fin);
    good &= EVP_CIPHER_CTX_ctrl(c, EVP_CTRL_CCM_GET_TAG, 8, tag.data());
    EVP_CIPHER_CTX_free(c);
    if (ok) *ok = good != 0;
    Bytes out;
    out.push_back(uint8_t(pn)); out.push_back(uint8_t(pn >> 8)); out.push_back(0);
    out.push_back(uint8_t(0x20 | (key_id << 6)));
    for (int k = 2; k < 6; ++k) out.push_back(uint8_t(pn >> (8 * k)));
    out.insert(out.end(), ct.begin(), ct.begin() + data.size());
    out.insert(out.end(), tag.begin(), tag.end());
    return out;
}

// ---------------------------------------------------------------- HMAC helpers, PBKDF2 (RFC 2898), PRF (11.6.1.2)
inline Bytes hmac(const EVP_MD* md, const uint8_t* key, size_t kn, const uint8_t* msg, size_t mn) {
    uint8_t out[EVP_MAX_MD_SIZE]; unsigned n = 0;
    HMAC(md, key, (int)kn, msg, mn, out, &n);
    return Bytes(out, out + n);
}
inline Bytes pbkdf2_sha1(const std::string& pass, const std::string& salt, int iter, size_t outlen) {
    Bytes out;
    for (uint32_t blk = 1; out.size() < outlen; ++blk) {
        Bytes s(salt.begin(), salt.end());
        for (int k = 3; k >= 0; --k) s.push_back(uint8_t(blk >> (8 * k)));
        Bytes u = hmac(EVP_sha1(), (const uint8_t*)pass.data(), pass.size(), s.data(), s.size()), t = u;
        for (int i = 1; i < iter; ++i) {
            u = hmac(EVP_sha1(), (const uint8_t*)pass.data(), pass.size(), u.data(), u.size());
            for (size_t k = 0; k < t.size(); ++k) t[k] ^= u[k];
        }
        out.insert(out.end(), t.begin(), t.end());
    }
    out.resize(outlen);
    return out;
}
inline Bytes prf(const Bytes& key, const std::string& label, const Bytes& data, size_t outlen) {
    Bytes out;
    for (uint8_t i = 0; out.size() < outlen; ++i) {
        Bytes m(label.begin(), label.end());
        m.push_back(0);
        m.insert(m.end(), data.begin(), data.end());
        m.push_back(i);
        Bytes h = hmac(EVP_sha1(), key.data(), key.size(), m.data(), m.size());
        out.insert(out.end(), h.begin(), h.end());
    }
    out.resize(outlen);
    return out;
}
// PTK = PRF-512(PMK, "Pairwise key expansion", min(AA,SPA) | max(AA,SPA) | min(ANonce,SNonce) | max(ANonce,SNonce))
inline Bytes ptk512(const Bytes& pmk, const uint8_t aa[6], const uint8_t spa[6], const uint8_t anonce[32], const uint8_t snonce[32]) {
    Bytes d;
    bool a_first = memcmp(aa, spa, 6) < 0;
    d.insert(d.end(), a_first ? aa : spa, (a_first ? aa : spa) + 6);
    d.insert(d.end(), a_first ? spa : aa, (a_first ? spa : aa) + 6);
    bool an_first = memcmp(anonce, snonce, 32) < 0;
    d.insert(d.end(), an_first ? anonce : snonce, (an_first ? anonce : snonce) + 32);
    d.insert(d.end(), an_first ? snonce : anonce, (an_first ? snonce : anonce) + 32);
    return prf(pmk, "Pairwise key expansion", d, 64);
}
// EAPOL-Key MIC (11.6.2): descriptor version 1 = HMAC-MD5, 2 = HMAC-SHA1-128, over the whole EAPOL frame with the MIC field zero
inline Bytes eapol_mic(int version, const uint8_t kck[16], const Bytes& frame_mic_zeroed) {
    Bytes h = hmac(version == 1 ? EVP_md5() : EVP_sha1(), kck, 16, frame_mic_zeroed.data(), frame_mic_zeroed.size());
    h.resize(16);
    return h;
}

// ---------------------------------------------------------------- published test vectors
inline Bytes from_hex(const char* s) {
    Bytes b;
    auto v = [](char c) { return c <= '9' ? c - '0' : (c | 32) - 'a' + 10; };
    for (; s[0] && s[1]; s += 2) b.push_back(uint8_t(v(s[0]) << 4 | v(s[1])));
    return b;
}
inline std::string selftest() {
    // CRC-32 check value
    if (crc32((const uint8_t*)"123456789", 9) != 0xCBF43926u) return "crc32";
    // RC4: key "Key", plaintext "Plaintext" -> BBF316E8D940AF0AD3
    { Bytes p = from_hex("506c61696e74657874"); RC4 r((const uint8_t*)"Key", 3); r.crypt(p.data(), p.size());
      if (p != from_hex("bbf316e8d940af0ad3")) return "rc4"; }
    // AES S-box spot values (FIPS-197 figure 7)
    if (aes_sbox(0x00) != 0x63 || aes_sbox(0x01) != 0x7c || aes_sbox(0x53) != 0xed || aes_sbox(0xff) != 0x16) return "aes-sbox";
    // Michael (802.11-2012 M.6.1... chained vectors)
    { const char* msgs[] = {"", "M", "Mi", "Mic", "Mich", "Michael"};
      const char* mics[] = {"82925c1ca1d130b8", "434721ca40639b3f", "e8f9becae97e5d29", "90038fc6cf13c1db", "d55e100510128986", "0a942b124ecaa546"};
      Bytes key(8, 0);
      for (int i = 0; i < 6; ++i) {
          uint8_t mic[8];
          michael(key.data(), Bytes(msgs[i], msgs[i] + strlen(msgs[i])), mic);
          if (Bytes(mic, mic + 8) != from_hex(mics[i])) return "michael";
          key.assign(mic, mic + 8);
      } }
    // TKIP key mixing (802.11-2012 annex M test vectors 1-4)
    { struct V { const char *tk, *ta; uint64_t pn; const char* rc4; } vs[] = {
          {"000102030405060708090a0b0c0d0e0f", "102233445566", 0x000000000000ULL, "00200033ea8d2f60ca6d1374234a660b"},
          {"000102030405060708090a0b0c0d0e0f", "102233445566", 0x000000000001ULL, "00200190ffdc314389a9d9d074fd20aa"},
          {"63893b250840b8ae0bd0fa7e61d2783e", "64f2eaeddc25", 0x20dcfd43ffffULL, "ff7fff93810fc6e58f5dd326251544ce"},
          {"63893b250840b8ae0bd0fa7e61d2783e", "64f2eaeddc25", 0x20dcfd440000ULL, "002000498ca471fcfbfaa16e3610f005"}};
      for (auto& v : vs) {
          Bytes tk = from_hex(v.tk), ta = from_hex(v.ta);
          uint16_t ttak[5]; uint8_t key[16];
          tkip_phase1(ttak, tk.data(), ta.data(), uint32_t(v.pn >> 16));
          tkip_phase2(key, ttak, tk.data(), uint16_t(v.pn & 0xffff));
          if (Bytes(key, key + 16) != from_hex(v.rc4)) return "tkip-mixing pn=" + std::to_string(v.pn);
      } }
    // PBKDF2 (802.11-2012 M.4.3): "password"/"IEEE"
    if (pbkdf2_sha1("password", "IEEE", 4096, 32) != from_hex("f42c6fc52df0ebef9ebb4b90b38a5f902e83fe1b135a70e23aed762e9710a12e")) return "pbkdf2";
    // PRF (802.11-2012 M.5.? / RFC 2202 style): key 0b x20, prefix "prefix", data "Hi There", 512 bits
    { Bytes k(20, 0x0b); Bytes d = from_hex("4869205468657265");
      Bytes o = prf(k, "prefix", d, 64);
      if (o != from_hex("bcd4c650b30b9684951829e0d75f9d54b862175ed9f00606e17d8da35402ffee75df78c3d31e0f889f012120c0862beb67753e7439ae242edb8373698356cf5a")) return "prf"; }
    // CCMP (802.11-2012 M.6.4 CCMP test vector)
    { Bytes tk = from_hex("c97c1f67ce371185514a8a19f2bdd52f");
      Bytes hdr = from_hex("0848c32c0fd2e128a57c5030f1844408abaea5b8fcba8033");
      Bytes data = from_hex("f8ba1a55d02f85ae967bb62fb6cda8eb7e78a050");
      if (ccmp_aad(hdr) != from_hex("08400fd2e128a57c5030f1844408abaea5b8fcba0000")) return "ccmp-aad";
      bool ok = false;
      Bytes body = ccmp_encrypt(tk.data(), hdr, 0xb5039776e70cULL, 0, data, &ok);
      if (!ok) return "ccmp-evp";
      if (body != from_hex("0ce70020769703b5f3d0a2fe9a3dbf2342a643e43246e80c3c04d0197845ce0b16f97623")) return "ccmp-vector"; }
    return "";
}

}  // namespace c09
