// C10 — the harness' OWN DNS wire encoder and reference decoder (RFC 1035 message layout, name
// compression).  Independent of libtins: used to produce initial / malformed messages and to state
// what a conforming reader gets from them.
#pragma once
#include "../common.hpp"

namespace dnsref {
using mc::Bytes;

enum { T_A = 1, T_NS = 2, T_CNAME = 5, T_SOA = 6, T_PTR = 12, T_MX = 15, T_TXT = 16, T_AAAA = 28 };

// One record as the libtins API shows it: expanded names, data rendered per type
//   A: dotted quad; AAAA: textual address; NS/CNAME/PTR/MX: expanded name (MX preference apart);
//   SOA: mname and rname as UNCOMPRESSED wire names followed by the five 32-bit fields; other: raw bytes.
struct Rec {
    std::string name;
    uint16_t type, cls;
    uint32_t ttl;
    uint16_t pref;
    std::string din;    // what is handed to DNS::resource(...) when the record is inserted through the API
    std::string dout;   // what the getters must show
};

inline std::vector<std::string> split_labels(const std::string& dotted) {
    std::vector<std::string> v;
    if (dotted.empty()) return v;
    size_t p = 0;
    for (;;) {
        size_t q = dotted.find('.', p);
        if (q == std::string::npos) { v.push_back(dotted.substr(p)); break; }
        v.push_back(dotted.substr(p, q - p));
        p = q + 1;
    }
    return v;
}
inline std::string wire_name(const std::string& dotted) {   // uncompressed
    std::string o;
    for (auto& l : split_labels(dotted)) { o += char(l.size()); o += l; }
    o += '\0';
    return o;
}
inline std::string soa_data(const std::string& mname, const std::string& rname, uint32_t serial, uint32_t refresh,
                            uint32_t retry, uint32_t expire, uint32_t minimum) {
    std::string o = wire_name(mname) + wire_name(rname);
    uint32_t v[5] = {serial, refresh, retry, expire, minimum};
    for (int i = 0; i < 5; ++i) for (int s = 24; s >= 0; s -= 8) o += char(v[i] >> s);
    return o;
}

// ---------------------------------------------------------------- encoder
struct Enc {
    Bytes b;
    std::vector<size_t> ptrs;        // offsets of every compression pointer written
    Enc(int qd, int an, int ns, int ar, uint16_t flags = 0x8180) {
        uint8_t h[12] = {0x12, 0x34, uint8_t(flags >> 8), uint8_t(flags), uint8_t(qd >> 8), uint8_t(qd), uint8_t(an >> 8), uint8_t(an),
                         uint8_t(ns >> 8), uint8_t(ns), uint8_t(ar >> 8), uint8_t(ar)};
        b.assign(h, h + 12);
    }
    size_t at() const { return b.size(); }
    Enc& lab(const std::string& l) { b.push_back(uint8_t(l.size())); b.insert(b.end(), l.begin(), l.end()); return *this; }
    Enc& labs(const std::string& dotted) { for (auto& l : split_labels(dotted)) lab(l); return *this; }
    Enc& z() { b.push_back(0); return *this; }
    Enc& name(const std::string& dotted) { return labs(dotted).z(); }
    Enc& ptr(size_t off) { ptrs.push_back(at()); b.push_back(uint8_t(0xc0 | (off >> 8 & 0x3f))); b.push_back(uint8_t(off)); return *this; }
    Enc& u8(unsigned v) { b.push_back(uint8_t(v)); return *this; }
    Enc& u16(unsigned v) { b.push_back(uint8_t(v >> 8)); b.push_back(uint8_t(v)); return *this; }
    Enc& u32(uint32_t v) { u16(v >> 16); return u16(v & 0xffff); }
    Enc& raw(const std::string& s) { b.insert(b.end(), s.begin(), s.end()); return *this; }
    Enc& raw(const Bytes& s) { b.insert(b.end(), s.begin(), s.end()); return *this; }
    Enc& q(unsigned type, unsigned cls = 1) { u16(type); return u16(cls); }
    // fixed part of a resource record after the owner name; returns the position of RDLENGTH, closed by end()
    size_t rr(unsigned type, uint32_t ttl, unsigned cls = 1) { u16(type); u16(cls); u32(ttl); size_t p = at(); u16(0); return p; }
    Enc& end(size_t p) { size_t n = at() - p - 2; b[p] = uint8_t(n >> 8); b[p + 1] = uint8_t(n); return *this; }
    Enc& a4(uint8_t a, uint8_t b_, uint8_t c, uint8_t d) { u8(a); u8(b_); u8(c); return u8(d); }
};

// ---------------------------------------------------------------- reference decoder
struct Parsed {
    bool legal;
    std::string why;
    bool printable;                         // every label consists of bytes 0x21..0x7e other than '.'
    std::vector<Rec> sec[4];                // question entries use name/type/cls only
    Parsed() : legal(true), printable(true) {}
};

// Expands the name at `off`.  Returns false when it is not a legal RFC 1035 name inside the message.
inline bool ref_name(const Bytes& m, size_t off, std::string& dotted, size_t* next, bool* printable, std::string* why) {
    size_t p = off, total = 0;
    int hops = 0;
    bool jumped = false;
    dotted.clear();
    bool first = true;
    for (;;) {
        if (p >= m.size()) { if (why) *why = "name runs past the end"; return false; }
        uint8_t c = m[p];
        if (c == 0) { if (!jumped && next) *next = p + 1; total += 1; break; }
        if ((c & 0xc0) == 0xc0) {
            if (p + 1 >= m.size()) { if (why) *why = "truncated pointer"; return false; }
            size_t t = size_t(c & 0x3f) << 8 | m[p + 1];
            if (!jumped && next) *next = p + 2;
            jumped = true;
            if (++hops > 128) { if (why) *why = "pointer loop"; return false; }
            if (t >= m.size()) { if (why) *why = "pointer out of range"; return false; }
            p = t;
            continue;
        }
        if (c & 0xc0) { if (why) *why = "reserved label type"; return false; }
        if (p + 1 + c > m.size()) { if (why) *why = "label runs past the end"; return false; }
        total += 1 + c;
        if (total + 1 > 255) { if (why) *why = "name longer than 255 octets"; return false; }
        if (!first) dotted += '.';
        first = false;
        for (size_t i = 0; i < c; ++i) {
            uint8_t ch = m[p + 1 + i];
            if (ch < 0x21 || ch > 0x7e || ch == '.') if (printable) *printable = false;
            dotted += char(ch);
        }
        p += 1 + c;
    }
    return total <= 255;
}

inline std::string dotted_quad(const uint8_t* p) {
    char b[32];
    snprintf(b, sizeof b, "%u.%u.%u.%u", p[0], p[1], p[2], p[3]);
    return b;
}
inline std::string v6_text(const uint8_t* p) {     // uncompressed groups; compared as an address, not as text
    char b[64];
    snprintf(b, sizeof b, "%x:%x:%x:%x:%x:%x:%x:%x", p[0] << 8 | p[1], p[2] << 8 | p[3], p[4] << 8 | p[5], p[6] << 8 | p[7],
             p[8] << 8 | p[9], p[10] << 8 | p[11], p[12] << 8 | p[13], p[14] << 8 | p[15]);
    return b;
}

inline Parsed ref_parse(const Bytes& m) {
    Parsed P;
    auto bad = [&](const std::string& w) { P.legal = false; P.why = w; return P; };
    if (m.size() < 12) return bad("short header");
    size_t cnt[4];
    for (int i = 0; i < 4; ++i) cnt[i] = size_t(m[4 + 2 * i]) << 8 | m[5 + 2 * i];
    size_t p = 12;
    std::string why;
    for (int s = 0; s < 4; ++s)
        for (size_t i = 0; i < cnt[s]; ++i) {
            Rec r; r.type = r.cls = r.pref = 0; r.ttl = 0;
            size_t nx = 0;
            if (!ref_name(m, p, r.name, &nx, &P.printable, &why)) return bad(why);
            p = nx;
            if (s == 0) {
                if (p + 4 > m.size()) return bad("question truncated");
                r.type = m[p] << 8 | m[p + 1]; r.cls = m[p + 2] << 8 | m[p + 3];
                p += 4;
                P.sec[0].push_back(r);
                continue;
            }
            if (p + 10 > m.size()) return bad("record truncated");
            r.type = m[p] << 8 | m[p + 1]; r.cls = m[p + 2] << 8 | m[p + 3];
            r.ttl = uint32_t(m[p + 4]) << 24 | m[p + 5] << 16 | m[p + 6] << 8 | m[p + 7];
            size_t rdlen = m[p + 8] << 8 | m[p + 9];
            p += 10;
            if (p + rdlen > m.size()) return bad("rdata truncated");
            size_t rd = p, re = p + rdlen;
            switch (r.type) {
                case T_A: if (rdlen != 4) return bad("A length"); r.dout = dotted_quad(&m[rd]); break;
                case T_AAAA: if (rdlen != 16) return bad("AAAA length"); r.dout = v6_text(&m[rd]); break;
                case T_MX:
                    if (rdlen < 3) return bad("MX length");
                    r.pref = m[rd] << 8 | m[rd + 1];
                    rd += 2;
                    // fall through
                case T_NS: case T_CNAME: case T_PTR: {
                    if (rd >= re) return bad("empty name rdata");
                    if (!ref_name(m, rd, r.dout, &nx, &P.printable, &why)) return bad(why);
                    if (nx != re) return bad("name does not fill rdata");
                    break;
                }
                case T_SOA: {
                    std::string a, b2;
                    if (rd >= re) return bad("empty SOA");
                    if (!ref_name(m, rd, a, &nx, &P.printable, &why)) return bad(why);
                    rd = nx;
                    if (rd >= re) return bad("short SOA");
                    if (!ref_name(m, rd, b2, &nx, &P.printable, &why)) return bad(why);
                    rd = nx;
                    if (rd + 20 != re) return bad("SOA length");
                    r.dout = wire_name(a) + wire_name(b2) + std::string((const char*)&m[rd], 20);
                    break;
                }
                default: r.dout.assign((const char*)m.data() + rd, rdlen); break;
            }
            p = re;
            P.sec[s].push_back(r);
        }
    return P;
}

}  // namespace dnsref
