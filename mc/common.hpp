// Shared harness runtime: report/JSON output, sanitizer monitors, allocation ledger,
// progress slot for crash attribution, command line.  Header-only; include once per harness.
#pragma once
#include <cstdint>
#include <cstdio>
#include <cstdlib>
#include <cstring>
#include <ctime>
#include <csignal>
#include <map>
#include <new>
#include <set>
#include <sstream>
#include <string>
#include <vector>
#include <functional>
#include <typeinfo>
#include <exception>
#include <stdexcept>
#include <execinfo.h>
#include <fcntl.h>
#include <sys/mman.h>
#include <sys/time.h>
#include <unistd.h>

#if defined(__has_feature)
#if __has_feature(address_sanitizer)
#define MC_ASAN 1
#endif
#endif
#ifdef MC_ASAN
#include <sanitizer/asan_interface.h>
#include <sanitizer/common_interface_defs.h>
#endif

namespace mc {

typedef std::vector<uint8_t> Bytes;

// ---------------------------------------------------------------- small helpers
inline std::string hex(const uint8_t* p, size_t n) {
    static const char* d = "0123456789abcdef";
    std::string s;
    s.reserve(n * 2);
    for (size_t i = 0; i < n; ++i) { s += d[p[i] >> 4]; s += d[p[i] & 15]; }
    return s;
}
inline std::string hex(const Bytes& b) { return hex(b.data(), b.size()); }
inline Bytes unhex(const std::string& s) {
    Bytes b;
    auto v = [](char c) { return c <= '9' ? c - '0' : (c | 32) - 'a' + 10; };
    for (size_t i = 0; i + 1 < s.size(); i += 2) b.push_back(uint8_t(v(s[i]) << 4 | v(s[i + 1])));
    return b;
}
inline std::string jstr(const std::string& s) {
    std::string o = "\"";
    for (unsigned char c : s) {
        if (c == '"' || c == '\\') { o += '\\'; o += char(c); }
        else if (c == '\n') o += "\\n";
        else if (c < 0x20 || c >= 0x7f) { char b[8]; snprintf(b, sizeof b, "\\u%04x", c); o += b; }
        else o += char(c);
    }
    return o + "\"";
}
inline uint64_t fnv(const void* p, size_t n, uint64_t h = 1469598103934665603ULL) {
    const uint8_t* b = static_cast<const uint8_t*>(p);
    for (size_t i = 0; i < n; ++i) { h ^= b[i]; h *= 1099511628211ULL; }
    return h;
}
inline uint64_t fnv(const std::string& s, uint64_t h = 1469598103934665603ULL) { return fnv(s.data(), s.size(), h); }
template <class T> std::string str(const T& v) { std::ostringstream o; o << v; return o.str(); }

// ---------------------------------------------------------------- allocation ledger
// Global operator new/delete are replaced by counting versions built on malloc/free
// (ASan still poisons/quarantines through its malloc interception).
extern long g_live_allocs;
// when g_new_fill_on is set, every block handed out by operator new is pre-filled with g_new_fill: a parser that leaves a member
// uninitialised then shows different getter values under different fills (ASan's own malloc fill is a constant 0xbe)
extern unsigned char g_new_fill; extern bool g_new_fill_on;
inline long live_allocs() { return g_live_allocs; }

// ---------------------------------------------------------------- report
struct Violation { std::string sig, detail, kase; uint64_t count; };

struct Report {
    std::map<std::string, uint64_t> counters, maxes;
    std::map<std::string, std::set<uint64_t> > distinct;
    std::vector<std::string> samples;  // JSON values
    std::map<std::string, Violation> violations;
    std::map<std::string, bool> flags;
    std::map<std::string, std::string> info;  // JSON values
    size_t max_samples = 6;

    void count(const std::string& k, uint64_t n = 1) { counters[k] += n; }
    void maxv(const std::string& k, uint64_t v) { if (maxes[k] < v) maxes[k] = v; }
    void dist(const std::string& k, uint64_t h) { distinct[k].insert(h); }
    void sample(const std::string& json) { if (samples.size() < max_samples) samples.push_back(json); }
    void violation(const std::string& sig, const std::string& detail, const std::string& kase) {
        auto it = violations.find(sig);
        if (it == violations.end()) violations[sig] = Violation{sig, detail, kase, 1};
        else {
            it->second.count++;
            if (kase.size() < it->second.kase.size()) { it->second.kase = kase; it->second.detail = detail; }
        }
    }
    void write(const std::string& path) const {
        std::string o = "{\"counters\":{";
        bool f = true;
        for (auto& kv : counters) { o += (f ? "" : ",") + jstr(kv.first) + ":" + std::to_string(kv.second); f = false; }
        o += "},\"max\":{"; f = true;
        for (auto& kv : maxes) { o += (f ? "" : ",") + jstr(kv.first) + ":" + std::to_string(kv.second); f = false; }
        o += "},\"distinct\":{"; f = true;
        for (auto& kv : distinct) {
            o += (f ? "" : ",") + jstr(kv.first) + ":["; f = false;
            bool g = true;
            for (auto h : kv.second) { o += (g ? "" : ",") + std::to_string(h >> 11); g = false; }  // 53-bit safe ints
            o += "]";
        }
        o += "},\"samples\":["; f = true;
        for (auto& s : samples) { o += (f ? "" : ",") + s; f = false; }
        o += "],\"flags\":{"; f = true;
        for (auto& kv : flags) { o += (f ? "" : ",") + jstr(kv.first) + ":" + (kv.second ? "true" : "false"); f = false; }
        o += "},\"info\":{"; f = true;
        for (auto& kv : info) { o += (f ? "" : ",") + jstr(kv.first) + ":" + kv.second; f = false; }
        o += "},\"violations\":["; f = true;
        for (auto& kv : violations) {
            o += (f ? "" : ",");
            f = false;
            o += "{\"sig\":" + jstr(kv.second.sig) + ",\"detail\":" + jstr(kv.second.detail) + ",\"case\":" +
                 jstr(kv.second.kase) + ",\"count\":" + std::to_string(kv.second.count) + "}";
        }
        o += "]}\n";
        std::string tmp = path + ".tmp";
        FILE* fp = fopen(tmp.c_str(), "w");
        if (!fp) { perror("open out"); _exit(2); }
        fwrite(o.data(), 1, o.size(), fp);
        fclose(fp);
        rename(tmp.c_str(), path.c_str());
    }
};
extern Report R;

// ---------------------------------------------------------------- command line
struct Args {
    std::string tier = "quick", out, progress, replay;
    bool list_jobs = false, have_replay = false;
    int job = -1;
    uint64_t skip = 0;
    std::set<uint64_t> skip_list;   // case indices that crashed the process in an earlier attempt of this job
    double deadline = 0;  // seconds from start; 0 = none
    bool thorough() const { return tier == "thorough"; }
};
extern Args A;
extern double g_t0;
inline double now() { struct timespec ts; clock_gettime(CLOCK_MONOTONIC, &ts); return ts.tv_sec + ts.tv_nsec * 1e-9; }
inline bool deadline_reached() { return A.deadline > 0 && now() - g_t0 > A.deadline; }

// ---------------------------------------------------------------- progress slot (crash attribution)
extern char* g_progress;
extern uint64_t g_case_index;
extern std::string g_context;
// record "<index>|<context>|<case>" before running a case
inline void set_case(uint64_t index, const std::string& context, const std::string& kase) {
    g_case_index = index;
    g_context = context;
    if (g_progress) {
        int n = snprintf(g_progress, 65000, "%llu|%s|", (unsigned long long)index, context.c_str());
        size_t m = kase.size() < 65000 - (size_t)n ? kase.size() : 65000 - (size_t)n;
        memcpy(g_progress + n, kase.data(), m);
        g_progress[n + m] = 0;
    }
}
inline void set_context(const std::string& c) { g_context = c; }
inline bool skipped(uint64_t index) { return A.skip_list.count(index) != 0; }

// ---------------------------------------------------------------- sanitizer monitors
struct Mon {
    static int errors;                 // since last reset
    static std::string first;          // signature fragment of the first error since reset
    static std::string first_detail;
    static bool wrote;                 // an ASan WRITE error happened (state may be corrupt)
    static void reset() { errors = 0; first.clear(); first_detail.clear(); wrote = false; }
};

std::string tins_frame();  // first Tins:: frame of the current stack (symbolized), or ""

// Watchdog: SIGALRM => record hang for the current case, write report, exit(3)
void arm_watchdog(int seconds);
void disarm_watchdog();

int run_main(int argc, char** argv, int njobs_quick, int njobs_thorough,
             const std::function<void(int job)>& run_job,
             const std::function<int(const std::string& kase)>& replay);

}  // namespace mc

// ================================================================== implementation
#ifndef MC_NO_IMPL
namespace mc {
long g_live_allocs = 0;
unsigned char g_new_fill = 0; bool g_new_fill_on = false;
Report R;
Args A;
double g_t0 = 0;
char* g_progress = 0;
uint64_t g_case_index = 0;
std::string g_context;
int Mon::errors = 0;
std::string Mon::first, Mon::first_detail;
bool Mon::wrote = false;

std::string tins_frame() {
#ifdef MC_ASAN
    void* fr[48];
    int n = backtrace(fr, 48);
    char buf[512];
    for (int i = 0; i < n; ++i) {
        buf[0] = 0;
        __sanitizer_symbolize_pc((char*)fr[i] - 1, "%f", buf, sizeof buf);
        if (strncmp(buf, "Tins::", 6) == 0 || strstr(buf, " Tins::")) {
            std::string s(buf);
            size_t p = s.find('(');
            if (p != std::string::npos) s = s.substr(0, p);
            // strip template args for stable signatures
            std::string o; int depth = 0;
            for (char c : s) { if (c == '<') depth++; else if (c == '>') depth--; else if (!depth) o += c; }
            size_t sp = o.rfind(' ');
            if (sp != std::string::npos) o = o.substr(sp + 1);
            return o;
        }
    }
#endif
    return "";
}

static void on_alarm(int) {
    R.violation("hang:" + g_context, "watchdog expired", g_progress ? std::string(strchr(strchr(g_progress, '|') + 1, '|') + 1) : "");
    R.flags["exhaustive"] = false;
    if (!A.out.empty()) R.write(A.out);
    _exit(3);
}
void arm_watchdog(int seconds) { signal(SIGALRM, on_alarm); alarm(seconds); }
void disarm_watchdog() { alarm(0); }

int run_main(int argc, char** argv, int njobs_quick, int njobs_thorough,
             const std::function<void(int)>& run_job, const std::function<int(const std::string&)>& replay) {
    g_t0 = now();
    for (int i = 1; i < argc; ++i) {
        std::string a = argv[i];
        auto next = [&]() -> std::string { return i + 1 < argc ? argv[++i] : ""; };
        if (a == "--tier") A.tier = next();
        else if (a == "--list-jobs") A.list_jobs = true;
        else if (a == "--job") A.job = atoi(next().c_str());
        else if (a == "--out") A.out = next();
        else if (a == "--progress") A.progress = next();
        else if (a == "--skip") A.skip = strtoull(next().c_str(), 0, 10);
        else if (a == "--skip-list") { std::string l = next(); size_t p = 0; while (p < l.size()) { A.skip_list.insert(strtoull(l.c_str() + p, 0, 10)); p = l.find(',', p); if (p == std::string::npos) break; ++p; } }
        else if (a == "--deadline") A.deadline = atof(next().c_str());
        else if (a == "--replay-case") { A.replay = next(); A.have_replay = true; }
    }
    int nj = A.thorough() ? njobs_thorough : njobs_quick;
    if (A.list_jobs) { printf("%d\n", nj); return 0; }
    if (A.have_replay) return replay(A.replay);
    if (!A.progress.empty()) {
        int fd = open(A.progress.c_str(), O_RDWR);
        if (fd >= 0) {
            void* p = mmap(0, 65536, PROT_READ | PROT_WRITE, MAP_SHARED, fd, 0);
            if (p != MAP_FAILED) g_progress = static_cast<char*>(p);
            close(fd);
        }
    }
    R.flags["exhaustive"] = true;
    if (A.job < 0) { for (int j = 0; j < nj; ++j) run_job(j); }
    else run_job(A.job);
    if (!A.out.empty()) R.write(A.out);
    else R.write("/dev/stdout");
    return 0;
}
}  // namespace mc

void* operator new(size_t n) { void* p = malloc(n ? n : 1); if (!p) throw std::bad_alloc(); ++mc::g_live_allocs; if (mc::g_new_fill_on) memset(p, mc::g_new_fill, n); return p; }
void* operator new[](size_t n) { void* p = malloc(n ? n : 1); if (!p) throw std::bad_alloc(); ++mc::g_live_allocs; if (mc::g_new_fill_on) memset(p, mc::g_new_fill, n); return p; }
void* operator new(size_t n, const std::nothrow_t&) noexcept { void* p = malloc(n ? n : 1); if (p) { ++mc::g_live_allocs; if (mc::g_new_fill_on) memset(p, mc::g_new_fill, n); } return p; }
void* operator new[](size_t n, const std::nothrow_t&) noexcept { void* p = malloc(n ? n : 1); if (p) { ++mc::g_live_allocs; if (mc::g_new_fill_on) memset(p, mc::g_new_fill, n); } return p; }
void operator delete(void* p) noexcept { if (p) { --mc::g_live_allocs; free(p); } }
void operator delete[](void* p) noexcept { if (p) { --mc::g_live_allocs; free(p); } }
void operator delete(void* p, size_t) noexcept { if (p) { --mc::g_live_allocs; free(p); } }
void operator delete[](void* p, size_t) noexcept { if (p) { --mc::g_live_allocs; free(p); } }

#ifdef MC_ASAN
extern "C" void __asan_on_error() {
    mc::Mon::errors++;
    bool w = __asan_get_report_access_type() == 1;
    if (w) mc::Mon::wrote = true;
    if (mc::Mon::first.empty()) {
        const char* d = __asan_get_report_description();
        std::string fr = mc::tins_frame();
        mc::Mon::first = std::string("asan:") + (d ? d : "?") + ":" + (w ? "W" : "R") + ":" + (fr.empty() ? "?" : fr);
        char b[128];
        snprintf(b, sizeof b, "access size %zu at %p", __asan_get_report_access_size(), __asan_get_report_address());
        mc::Mon::first_detail = b;
    }
}
#endif
extern "C" void __ubsan_get_current_report_data(const char** kind, const char** msg, const char** file, unsigned* line,
                                                unsigned* col, char** addr) __attribute__((weak));
extern "C" void __ubsan_on_report() {
    mc::Mon::errors++;
    if (mc::Mon::first.empty() && __ubsan_get_current_report_data) {
        const char *k = 0, *m = 0, *f = 0; unsigned l = 0, c = 0; char* a = 0;
        __ubsan_get_current_report_data(&k, &m, &f, &l, &c, &a);
        std::string file = f ? f : "?";
        size_t p = file.rfind('/');
        if (p != std::string::npos) file = file.substr(p + 1);
        mc::Mon::first = std::string("ubsan:") + (k ? k : "?") + ":" + file + ":" + std::to_string(l);
        mc::Mon::first_detail = m ? m : "";
    }
}
#endif
