// Explicit-state breadth-first exploration over a REAL implementation object stepped in
// lock-step with a reference model (the pair is the state S).  Canonical-string dedup,
// BFS-shortest counterexamples, replay-on-fresh-object check for every new state.
#pragma once
#include "common.hpp"
#include <deque>
#include <memory>
#include <unordered_set>

namespace mc {

template <class S, class Op>
struct Explorer {
    std::vector<Op> alphabet;                              // ordered simplest-first
    std::function<S()> init;                               // fresh (impl, model) pair
    std::function<std::string(const S&)> canon;            // canonical key: merged states have equal futures
    std::function<bool(const S&, const Op&)> enabled;      // optional
    // apply op; return "" when every invariant held, else "signature|detail"
    std::function<std::string(S&, const Op&)> step;
    std::function<std::string(const Op&)> op_str;
    std::function<bool(const S&)> nontrivial;              // optional: counts distinct_nontrivial
    std::function<std::string(const S&)> observe;          // optional: distinct observations
    size_t max_depth = (size_t)-1;
    size_t max_states = 4000000;
    bool replay_check = true;
    std::string context;                                   // prefix for replay cases, e.g. "level=a isn=4294967290"

    struct Node { std::unique_ptr<S> s; int parent; int op; int depth; };
    std::vector<Node> nodes;

    std::string history(int n, int extra_op = -1) const {
        std::vector<int> ops;
        for (int i = n; i > 0; i = nodes[i].parent) ops.push_back(nodes[i].op);
        std::string h;
        for (size_t i = ops.size(); i-- > 0;) { if (!h.empty()) h += ","; h += op_str(alphabet[ops[i]]); }
        if (extra_op >= 0) { if (!h.empty()) h += ","; h += op_str(alphabet[extra_op]); }
        return h;
    }
    std::vector<int> history_ops(int n) const {
        std::vector<int> ops;
        for (int i = n; i > 0; i = nodes[i].parent) ops.push_back(nodes[i].op);
        return std::vector<int>(ops.rbegin(), ops.rend());
    }

    // returns true when the reachable set (within max_depth) was explored completely
    bool run() {
        std::unordered_set<std::string> seen;
        nodes.clear();
        nodes.push_back(Node{std::unique_ptr<S>(new S(init())), -1, -1, 0});
        seen.insert(canon(*nodes[0].s));
        R.count("states");
        bool complete = true, depth_cut = false;
        size_t head = 0;
        uint64_t idx = 0;
        while (head < nodes.size()) {
            if (deadline_reached()) { complete = false; break; }
            if (nodes.size() > max_states) { complete = false; R.flags["state_cap_hit"] = true; break; }
            int cur = (int)head++;
            if ((size_t)nodes[cur].depth >= max_depth) { depth_cut = true; nodes[cur].s.reset(); continue; }
            for (size_t oi = 0; oi < alphabet.size(); ++oi) {
                const Op& op = alphabet[oi];
                if (enabled && !enabled(*nodes[cur].s, op)) continue;
                uint64_t my_index = idx++;
                if (skipped(my_index)) { R.flags["exhaustive"] = false; continue; }   // crashed the process in an earlier attempt (reported by the driver)
                set_case(my_index, context, context + " ops=" + history(cur, (int)oi));
                std::unique_ptr<S> n(new S(*nodes[cur].s));
                Mon::reset();
                std::string err;
                try { err = step(*n, op); }
                catch (std::exception& e) { err = std::string("exc:") + typeid(e).name() + "|" + e.what(); }
                catch (...) { err = "exc:unknown|"; }
                R.count("transitions");
                R.count("traces_validated_against_impl");
                if (Mon::errors && err.empty()) err = Mon::first + "|" + Mon::first_detail;
                if (!err.empty()) {
                    size_t bar = err.find('|');
                    R.violation(err.substr(0, bar), bar == std::string::npos ? "" : err.substr(bar + 1),
                                context + " ops=" + history(cur, (int)oi));
                    continue;  // do not expand past a violating transition
                }
                std::string k = canon(*n);
                if (seen.insert(k).second) {
                    R.count("states");
                    R.maxv("max_depth", nodes[cur].depth + 1);
                    if (nontrivial && nontrivial(*n)) R.dist("distinct_nontrivial", fnv(k));
                    if (observe) R.dist("distinct_observations", fnv(observe(*n)));
                    nodes.push_back(Node{std::move(n), cur, (int)oi, nodes[cur].depth + 1});
                    if (replay_check) {
                        // same history on a fresh object must reach the same canonical state
                        S f = init();
                        for (int o : history_ops((int)nodes.size() - 1)) step(f, alphabet[o]);
                        if (canon(f) != k) {
                            fprintf(stderr, "REPLAY-DIVERGENCE %s ops=%s\n  copy : %s\n  fresh: %s\n", context.c_str(),
                                    history((int)nodes.size() - 1).c_str(), k.c_str(), canon(f).c_str());
                            R.violation("harness:replay-divergence", "copied state and replayed state differ",
                                        context + " ops=" + history((int)nodes.size() - 1));
                        }
                        Mon::reset();
                    }
                }
            }
            if (R.samples.size() < R.max_samples && cur > 0 && (cur % 977) == 1)
                R.sample(jstr(context + " ops=" + history(cur)));
            nodes[cur].s.reset();
        }
        if (nodes.size() > 1) R.sample(jstr(context + " ops=" + history((int)nodes.size() - 1)));
        if (depth_cut) R.flags["depth_bounded"] = true;
        if (!complete) R.flags["exhaustive"] = false;
        return complete;
    }

    // sequential replay of a comma-separated op list on a fresh object; returns violation string or ""
    std::string replay(const std::string& ops) {
        S s = init();
        size_t p = 0;
        while (p < ops.size()) {
            size_t q = ops.find(',', p);
            if (q == std::string::npos) q = ops.size();
            std::string one = ops.substr(p, q - p);
            p = q + 1;
            bool found = false;
            for (auto& op : alphabet)
                if (op_str(op) == one) {
                    found = true;
                    Mon::reset();
                    std::string err;
                    try { err = step(s, op); }
                    catch (std::exception& e) { err = std::string("exc:") + typeid(e).name() + "|" + e.what(); }
                    if (Mon::errors && err.empty()) err = Mon::first + "|" + Mon::first_detail;
                    if (!err.empty()) return err + " at op " + one;
                    break;
                }
            if (!found) return "harness:unknown-op|" + one;
        }
        return "";
    }
};

// parse "k1=v1 k2=v2 ..." case strings
inline std::map<std::string, std::string> parse_kv(const std::string& s) {
    std::map<std::string, std::string> m;
    std::istringstream in(s);
    std::string t;
    while (in >> t) {
        size_t e = t.find('=');
        if (e != std::string::npos) m[t.substr(0, e)] = t.substr(e + 1);
    }
    return m;
}

}  // namespace mc
