// Packet grammar: well-formed packets built through the public API. Used as seeds (their wire images,
// and every layer-suffix of them) by the byte enumerator, and as the packet family of C02/C05.
//   (1) hand-written stacks covering every class and layer adjacency,
//   (2) generated variants: for EVERY (class, setter) pair of api.inc whose argument type has a domain,
//       the class inside its typical stack with that setter applied to sample k (k < variants_per_setter).
#pragma once
#include "domain.hpp"
#include <memory>

namespace mc {
using namespace Tins;

struct Built { std::string name; std::unique_ptr<PDU> pdu; const std::type_info* own; };   // own != 0: generated variant of that class

inline Bytes pattern(size_t n, uint8_t seed = 0x41) { Bytes b(n); for (size_t i = 0; i < n; ++i) b[i] = uint8_t(seed + i * 13); return b; }

static const HWAddress<6> MAC1("02:11:22:33:44:55");
static const HWAddress<6> MAC2("02:aa:bb:cc:dd:ee");

inline EthernetII eth() { return EthernetII(MAC2, MAC1); }
inline IP ip4() { return IP("192.168.10.2", "192.168.10.1"); }
inline IPv6 ip6() { return IPv6("2001:db8::2", "2001:db8::1"); }

// typical lower layers for a layer object of the given class (takes ownership of inner)
inline PDU* wrap(PDU* inner) {
    PDU* top = inner;
    auto under = [&](PDU* parent) { parent->inner_pdu(top); top = parent; };
    switch (inner->pdu_type()) {
        case PDU::TCP: case PDU::UDP: case PDU::ICMP: case PDU::IPSEC_AH: case PDU::IPSEC_ESP:
            under(new IP(ip4())); under(new EthernetII(eth())); break;
        case PDU::ICMPv6: under(new IPv6(ip6())); under(new EthernetII(eth())); break;
        case PDU::IP: case PDU::IPv6: case PDU::ARP: case PDU::DOT1Q: case PDU::PPPOE: case PDU::MPLS: case PDU::EAPOL:
            under(new EthernetII(eth())); break;
        case PDU::DNS: { UDP* u = new UDP(53, 4242); under(u); under(new IP(ip4())); under(new EthernetII(eth())); break; }
        case PDU::DHCP: case PDU::BOOTP: { UDP* u = new UDP(67, 68); under(u); under(new IP(ip4())); under(new EthernetII(eth())); break; }
        case PDU::DHCPv6: { UDP* u = new UDP(547, 546); under(u); under(new IPv6(ip6())); under(new EthernetII(eth())); break; }
        case PDU::RTP: { UDP* u = new UDP(5004, 5004); under(u); under(new IP(ip4())); under(new EthernetII(eth())); break; }
        case PDU::VXLAN: { UDP* u = new UDP(4789, 4789); under(u); under(new IP(ip4())); under(new EthernetII(eth())); break; }
        case PDU::LLC: under(new Dot3(MAC2, MAC1)); break;
        case PDU::SNAP: under(new LLC(0xaa, 0xaa)); under(new Dot3(MAC2, MAC1)); break;
        case PDU::STP: under(new LLC(0x42, 0x42)); under(new Dot3(MAC2, MAC1)); break;
        default:
            if (inner->matches_flag(PDU::DOT11)) under(new RadioTap());
            break;
    }
    return top;
}

template <class Q> typename std::enable_if<!std::is_abstract<Q>::value && std::is_default_constructible<Q>::value, PDU*>::type make_default(Q*) { return new Q(); }
inline PDU* make_default(EAPOL*) { return new RSNEAPOL(); }
inline PDU* make_default(Dot11ManagementFrame*) { return new Dot11Beacon(); }
inline PDU* make_default(Dot11ControlTA*) { return new Dot11RTS(); }
inline PDU* make_default(RawPDU*) { return new RawPDU(pattern(5)); }
inline PDU* make_default(...) { return 0; }

// base objects the generated variants start from: classes whose wire format depends on a message type get one base per type
template <class Q> std::vector<PDU*> make_bases(Q*) { std::vector<PDU*> v; if (PDU* p = make_default((Q*)0)) v.push_back(p); return v; }
// (neighbour-discovery types only: option setters on an MLD or echo message would build packets no specification describes)
inline std::vector<PDU*> make_bases(ICMPv6*) { return {new ICMPv6(ICMPv6::ROUTER_ADVERT), new ICMPv6(ICMPv6::NEIGHBOUR_SOLICIT), new ICMPv6(ICMPv6::REDIRECT)}; }
inline std::vector<PDU*> make_bases(ICMP*) { return {new ICMP(ICMP::ECHO_REQUEST), new ICMP(ICMP::TIMESTAMP_REQUEST), new ICMP(ICMP::ADDRESS_MASK_REQUEST), new ICMP(ICMP::DEST_UNREACHABLE)}; }
inline std::vector<PDU*> make_bases(DHCPv6*) { DHCPv6* r = new DHCPv6(); r->msg_type(DHCPv6::RELAY_FORWARD); return {new DHCPv6(), r}; }
inline std::vector<PDU*> make_bases(PPPoE*) { PPPoE* d = new PPPoE(); d->code(0x09); return {d, new PPPoE()}; }

template <class C, class A> typename std::decay<A>::type setter_arg(void (C::*)(A));

inline void add(std::vector<Built>& out, const std::string& name, PDU* p, const std::type_info* own = 0) { out.push_back(Built{name, std::unique_ptr<PDU>(p), own}); }
template <class P> void addc(std::vector<Built>& out, const std::string& name, const P& p) { add(out, name, p.clone()); }

inline Dot11Data dot11_data(bool qos_unused = false) {
    Dot11Data d("02:00:00:00:00:01", "02:00:00:00:00:02");
    d.addr3("02:00:00:00:00:03");
    return d;
}

inline void hand_written(std::vector<Built>& out) {
    // ---- Ethernet / IPv4 / transport
    addc(out, "eth/ip/tcp/raw", eth() / ip4() / TCP(80, 40000) / RawPDU(pattern(11)));
    addc(out, "eth/ip/tcp", eth() / ip4() / TCP(443, 1));
    { TCP t(80, 1025); t.mss(1460); t.winscale(7); t.sack_permitted(); t.timestamp(0x01020304, 0x0a0b0c0d); t.flags(TCP::SYN);
      addc(out, "eth/ip/tcp[mss,ws,sackok,ts]", eth() / ip4() / t); }
    { TCP t(80, 1025); std::vector<uint32_t> e = {1000, 2000, 3000, 4000}; t.sack(e); t.altchecksum(TCP::CHK_8FLETCHER); t.flags(TCP::ACK);
      addc(out, "eth/ip/tcp[sack,altchk]/raw", eth() / ip4() / t / RawPDU(pattern(3))); }
    { TCP t(80, 1025); t.add_option(TCP::option(TCP::NOP)); t.add_option(TCP::option(TCP::NOP)); t.add_option(TCP::option((TCP::OptionTypes)254, 9, pattern(9).data()));
      t.add_option(TCP::option(TCP::EOL)); addc(out, "eth/ip/tcp[nop,nop,exp9,eol]/raw", eth() / ip4() / t / RawPDU(pattern(2))); }
    addc(out, "eth/ip/udp/raw", eth() / ip4() / UDP(9, 9) / RawPDU(pattern(8)));
    addc(out, "eth/ip/udp", eth() / ip4() / UDP(9, 9));
    addc(out, "ip/udp/raw(odd)", ip4() / UDP(1234, 4321) / RawPDU(pattern(7)));
    addc(out, "eth/ip/raw", eth() / ip4() / RawPDU(pattern(9)));
    { IP i = ip4(); i.protocol(0xfd); i.ttl(3); i.tos(0x2e); i.id(0xbeef); addc(out, "ip(proto fd)/raw", i / RawPDU(pattern(12))); }
    { IP i = ip4(); i.flags(IP::MORE_FRAGMENTS); i.protocol(17); addc(out, "eth/ip(MF)/raw", eth() / i / RawPDU(pattern(16))); }
    { IP i = ip4(); i.fragment_offset(2); i.protocol(6); addc(out, "eth/ip(off 2)/raw", eth() / i / RawPDU(pattern(16))); }
    { IP i = ip4(); i.noop(); i.noop(); i.stream_identifier(0x1234); i.eol(); addc(out, "eth/ip[nop,nop,sid,eol]/udp/raw", eth() / i / UDP(7, 7) / RawPDU(pattern(4))); }
    { IP i = ip4(); IP::record_route_type rr(4); rr.routes.push_back("1.1.1.1"); rr.routes.push_back("2.2.2.2"); i.record_route(rr);
      addc(out, "eth/ip[rr]/icmp", eth() / i / ICMP()); }
    { IP i = ip4(); i.security(IP::security_type(0x1234, 0x5678, 0x9abc, 0xdef012)); addc(out, "ip[sec]/tcp", i / TCP(1, 2)); }
    { IP i = ip4(); IP::lsrr_type l(4); l.routes.push_back("9.9.9.9"); i.lsrr(l); addc(out, "ip[lsrr]/udp", i / UDP(1, 2)); }
    addc(out, "eth/ip/ip/tcp (ipip)", eth() / ip4() / IP("10.0.0.2", "10.0.0.1") / TCP(1, 2));
    // ---- ICMP
    { ICMP c(ICMP::ECHO_REQUEST); c.id(0x1234); c.sequence(7); addc(out, "eth/ip/icmp echo/raw", eth() / ip4() / c / RawPDU(pattern(20))); }
    { ICMP c(ICMP::ECHO_REPLY); c.id(1); c.sequence(1); addc(out, "ip/icmp reply", ip4() / c); }
    { ICMP c(ICMP::TIMESTAMP_REQUEST); c.id(9); c.sequence(2); c.original_timestamp(100); c.receive_timestamp(200); c.transmit_timestamp(300);
      addc(out, "eth/ip/icmp ts", eth() / ip4() / c); }
    { ICMP c(ICMP::ADDRESS_MASK_REQUEST); c.id(3); c.sequence(4); c.address_mask("255.255.255.0"); addc(out, "eth/ip/icmp mask", eth() / ip4() / c); }
    { ICMP c(ICMP::DEST_UNREACHABLE); c.code(3); c.mtu(1400); addc(out, "eth/ip/icmp unreach/ip/udp", eth() / ip4() / c / ip4() / UDP(53, 1000) / RawPDU(pattern(8))); }
    { ICMP c(ICMP::TIME_EXCEEDED); ICMPExtension e(1, 1); Bytes pl = {0x00, 0x10, 0x01, 0x01}; e.payload(pl); c.extensions().add_extension(e);
      addc(out, "eth/ip/icmp ttl+ext/raw128", eth() / ip4() / c / RawPDU(pattern(40))); }
    { ICMP c(ICMP::REDIRECT); c.gateway("10.9.8.7"); addc(out, "eth/ip/icmp redirect/raw", eth() / ip4() / c / RawPDU(pattern(28))); }
    { ICMP c(ICMP::PARAM_PROBLEM); c.pointer(9); addc(out, "eth/ip/icmp paramproblem/raw", eth() / ip4() / c / RawPDU(pattern(28))); }
    // ---- ARP, 802.1Q, QinQ, PPPoE, MPLS
    addc(out, "eth/arp", eth() / ARP("10.0.0.2", "10.0.0.1", MAC2, MAC1));
    { ARP a = ARP::make_arp_request("10.0.0.2", "10.0.0.1", MAC1).rfind_pdu<ARP>(); addc(out, "eth/arp req", eth() / a); }
    addc(out, "eth/dot1q/ip/udp/raw", eth() / Dot1Q(100) / ip4() / UDP(1, 2) / RawPDU(pattern(3)));
    { Dot1Q q(7); q.priority(5); q.cfi(1); addc(out, "eth/dot1q/arp", eth() / q / ARP("10.0.0.2", "10.0.0.1", MAC2, MAC1)); }
    addc(out, "eth/dot1q/dot1q/ip/tcp (qinq)", eth() / Dot1Q(10) / Dot1Q(20) / ip4() / TCP(1, 2));
    { Dot1Q q(5, false); addc(out, "eth/dot1q(nopad)/raw", eth() / q / RawPDU(pattern(5))); }
    { PPPoE p; p.code(0x09); p.service_name("isp"); p.host_uniq(pattern(4)); addc(out, "eth/pppoe[tags]", eth() / p); }
    { PPPoE p; p.code(0x07); p.ac_name("ac-1"); p.ac_cookie(pattern(16)); p.vendor_specific(PPPoE::vendor_spec_type(0x123456, pattern(3))); p.end_of_list();
      addc(out, "eth/pppoe[ac,cookie,vendor,eol]", eth() / p); }
    { PPPoE p; p.code(0); p.session_id(0x11); addc(out, "eth/pppoe session/raw", eth() / p / RawPDU(pattern(6))); }
    { MPLS m; m.label(1000); m.experimental(3); m.ttl(64); MPLS m2; m2.label(16); m2.ttl(1);
      addc(out, "eth/mpls/mpls/ip/udp", eth() / m / m2 / ip4() / UDP(1, 2)); }
    { MPLS m; m.label(0xfffff); addc(out, "eth/mpls/raw", eth() / m / RawPDU(pattern(10))); }
    // ---- 802.3 / LLC / SNAP / STP
    addc(out, "dot3/llc/raw", Dot3(MAC2, MAC1) / LLC(0x10, 0x20) / RawPDU(pattern(6)));
    { LLC l(0xf0, 0xf0); l.type(LLC::SUPERVISORY); l.supervisory_function(LLC::RECEIVE_NOT_READY); l.receive_seq_number(5);
      addc(out, "dot3/llc(S)", Dot3(MAC2, MAC1) / l); }
    { LLC l(0xe0, 0xe0); l.type(LLC::UNNUMBERED); l.modifier_function(LLC::XID); l.add_xid_information(0x81, 1, 9);
      addc(out, "dot3/llc(U,xid)", Dot3(MAC2, MAC1) / l); }
    { LLC l(0x42, 0x43); l.type(LLC::INFORMATION); l.send_seq_number(3); l.receive_seq_number(9); addc(out, "dot3/llc(I)/raw", Dot3(MAC2, MAC1) / l / RawPDU(pattern(4))); }
    addc(out, "dot3/llc/stp", Dot3(MAC2, MAC1) / LLC(0x42, 0x42) / STP());
    { STP s; s.root_path_cost(4); s.port_id(0x8001); STP::bpdu_id_type id; id.priority = 8; id.ext_id = 1; id.id = MAC1; s.root_id(id); s.bridge_id(id);
      addc(out, "dot3/llc/stp(ids)", Dot3(MAC2, MAC1) / LLC(0x42, 0x42) / s); }
    { SNAP s; s.org_code(0x00000c); s.eth_type(0x2000); addc(out, "dot3/llc/snap/raw", Dot3(MAC2, MAC1) / LLC(0xaa, 0xaa) / s / RawPDU(pattern(5))); }
    addc(out, "dot3/llc/snap/ip/udp", Dot3(MAC2, MAC1) / LLC(0xaa, 0xaa) / SNAP() / ip4() / UDP(1, 2));
    // ---- SLL, Loopback
    { SLL s; s.packet_type(0); s.lladdr_type(1); s.lladdr_len(6); s.address(SLL::address_type("02:11:22:33:44:55:00:00")); addc(out, "sll/ip/tcp", s / ip4() / TCP(1, 2)); }
    { SLL s; s.lladdr_len(6); addc(out, "sll/ipv6/udp", s / ip6() / UDP(1, 2)); }
    { SLL s; s.protocol(0x1234); addc(out, "sll(unknown proto)/raw", s / RawPDU(pattern(5))); }
    addc(out, "loopback/ip/udp", Loopback() / ip4() / UDP(1, 2));
    addc(out, "loopback/ipv6/tcp", Loopback() / ip6() / TCP(1, 2));
    // ---- IPv6
    addc(out, "eth/ipv6/tcp/raw", eth() / ip6() / TCP(80, 2) / RawPDU(pattern(5)));
    addc(out, "eth/ipv6/udp/raw", eth() / ip6() / UDP(80, 2) / RawPDU(pattern(6)));
    addc(out, "ipv6/raw", ip6() / RawPDU(pattern(6)));
    { IPv6 i = ip6(); i.traffic_class(0xb8); i.flow_label(0xabcde); i.hop_limit(1); addc(out, "eth/ipv6(tc,fl)/icmpv6", eth() / i / ICMPv6(ICMPv6::ECHO_REQUEST)); }
    { IPv6 i = ip6(); i.add_header(IPv6::ext_header(IPv6::HOP_BY_HOP, 6, pattern(6).data())); addc(out, "eth/ipv6[hbh6]/udp", eth() / i / UDP(1, 2)); }
    { IPv6 i = ip6(); i.add_header(IPv6::ext_header(IPv6::DESTINATION_ROUTING_OPTIONS, 14, pattern(14).data())); i.add_header(IPv6::ext_header(IPv6::ROUTING, 6, pattern(6).data()));
      addc(out, "eth/ipv6[dst14,rt6]/tcp", eth() / i / TCP(1, 2)); }
    // three and four extension headers of different types: every link of the next-header chain names a different successor
    { IPv6 i = ip6(); i.add_header(IPv6::ext_header(IPv6::HOP_BY_HOP, 6, pattern(6).data())); i.add_header(IPv6::ext_header(IPv6::ROUTING, 6, pattern(6).data()));
      i.add_header(IPv6::ext_header(IPv6::DESTINATION_ROUTING_OPTIONS, 14, pattern(14).data())); addc(out, "eth/ipv6[hbh,rt,dst]/tcp", eth() / i / TCP(1, 2)); }
    { IPv6 i = ip6(); Bytes fr = {0, 0, 0, 0, 0, 1}; i.add_header(IPv6::ext_header(IPv6::HOP_BY_HOP, 6, pattern(6).data())); i.add_header(IPv6::ext_header(IPv6::DESTINATION_ROUTING_OPTIONS, 6, pattern(6).data()));
      i.add_header(IPv6::ext_header(IPv6::ROUTING, 22, pattern(22).data())); i.add_header(IPv6::ext_header(IPv6::FRAGMENT, 6, fr.data())); addc(out, "eth/ipv6[hbh,dst,rt,frag]/udp", eth() / i / UDP(1, 2) / RawPDU(pattern(5))); }
    { IPv6 i = ip6(); Bytes fr = {0, 8, 0, 0, 0, 1}; i.add_header(IPv6::ext_header(IPv6::FRAGMENT, 6, fr.data())); addc(out, "eth/ipv6[frag]/raw", eth() / i / RawPDU(pattern(8))); }
    addc(out, "eth/ipv6/ah/tcp", eth() / ip6() / IPSecAH() / TCP(1, 2));
    { IPSecAH ah; ah.spi(0x11223344); ah.seq_number(5); ah.icv(pattern(12)); addc(out, "eth/ip/ah(icv12)/udp/raw", eth() / ip4() / ah / UDP(1, 2) / RawPDU(pattern(3))); }
    { IPSecESP esp; esp.spi(0x99887766); esp.seq_number(3); addc(out, "eth/ip/esp/raw", eth() / ip4() / esp / RawPDU(pattern(24))); }
    // ---- ICMPv6
    { ICMPv6 c(ICMPv6::ECHO_REQUEST); c.identifier(5); c.sequence(6); addc(out, "eth/ipv6/icmpv6 echo/raw", eth() / ip6() / c / RawPDU(pattern(9))); }
    { ICMPv6 c(ICMPv6::NEIGHBOUR_SOLICIT); c.target_addr("fe80::1"); c.source_link_layer_addr(MAC1); addc(out, "eth/ipv6/icmpv6 ns[slla]", eth() / ip6() / c); }
    { ICMPv6 c(ICMPv6::NEIGHBOUR_ADVERT); c.target_addr("fe80::1"); c.solicited(1); c.override(1); c.target_link_layer_addr(MAC1); addc(out, "eth/ipv6/icmpv6 na[tlla]", eth() / ip6() / c); }
    { ICMPv6 c(ICMPv6::ROUTER_ADVERT); c.hop_limit(64); c.router_lifetime(1800); c.reachable_time(1); c.retransmit_timer(2); c.mtu(ICMPv6::mtu_type(0, 1500));
      c.prefix_info(ICMPv6::prefix_info_type(64, 1, 1, 3600, 1800, "2001:db8::")); c.source_link_layer_addr(MAC1);
      addc(out, "eth/ipv6/icmpv6 ra[mtu,pi,slla]", eth() / ip6() / c); }
    { ICMPv6 c(ICMPv6::REDIRECT); c.target_addr("fe80::2"); c.dest_addr("2001:db8::99"); addc(out, "eth/ipv6/icmpv6 redirect", eth() / ip6() / c); }
    { ICMPv6 c(ICMPv6::MLD2_REPORT); ICMPv6::multicast_address_record r; r.type = 1; r.multicast_address = "ff02::1"; r.sources.push_back("2001:db8::5"); r.aux_data = pattern(4);
      ICMPv6::multicast_address_records_list l; l.push_back(r); l.push_back(r); c.multicast_address_records(l); addc(out, "eth/ipv6/icmpv6 mld2 report", eth() / ip6() / c); }
    { ICMPv6 c(ICMPv6::MGM_QUERY); c.multicast_addr("ff02::1"); c.maximum_response_code(100); ICMPv6::sources_list s; s.push_back("2001:db8::7"); c.sources(s); c.qqic(5); c.qrv(2); c.supress(1);
      addc(out, "eth/ipv6/icmpv6 mld query", eth() / ip6() / c); }
    { ICMPv6 c(ICMPv6::TIME_EXCEEDED); ICMPExtension e(1, 1); Bytes pl = {0x00, 0x10, 0x01, 0x01}; e.payload(pl); c.extensions().add_extension(e);
      addc(out, "eth/ipv6/icmpv6 ttl+ext/raw", eth() / ip6() / c / RawPDU(pattern(48))); }
    { ICMPv6 c(ICMPv6::DEST_UNREACHABLE); addc(out, "eth/ipv6/icmpv6 unreach/ipv6/udp", eth() / ip6() / c / ip6() / UDP(1, 2) / RawPDU(pattern(8))); }
    // ---- DNS
    { DNS d; d.id(0x1234); d.recursion_desired(1); d.add_query(DNS::query("www.example.com", DNS::A, DNS::IN)); addc(out, "eth/ip/udp/dns query", eth() / ip4() / UDP(53, 4000) / d); }
    { DNS d; d.id(0x1234); d.type(DNS::RESPONSE); d.add_query(DNS::query("www.example.com", DNS::A, DNS::IN));
      d.add_answer(DNS::resource("www.example.com", "93.184.216.34", DNS::A, DNS::IN, 300)); d.add_answer(DNS::resource("www.example.com", "alias.example.net", DNS::CNAME, DNS::IN, 60));
      d.add_authority(DNS::resource("example.com", "ns1.example.com", DNS::NS, DNS::IN, 3600)); d.add_additional(DNS::resource("ns1.example.com", "2001:db8::53", DNS::AAAA, DNS::IN, 3600));
      addc(out, "eth/ip/udp/dns response", eth() / ip4() / UDP(4000, 53) / d); }
    { DNS d; d.add_query(DNS::query("example.com", DNS::MX, DNS::IN)); DNS::resource mx("example.com", "mail.example.com", DNS::MX, DNS::IN, 60); mx.preference(10); d.add_answer(mx);
      d.add_answer(DNS::resource("example.com", "v=spf1 -all", DNS::TXT, DNS::IN, 60)); addc(out, "ip/udp/dns mx+txt", ip4() / UDP(4000, 53) / d); }
    // ---- BootP / DHCP / DHCPv6
    { BootP b; b.opcode(1); b.htype(1); b.hlen(6); b.xid(0xdeadbeef); b.chaddr(MAC1); b.ciaddr("1.2.3.4"); addc(out, "eth/ip/udp/bootp", eth() / ip4() / UDP(67, 68) / b); }
    { DHCP d; d.opcode(1); d.xid(0x11223344); d.chaddr(MAC1); d.type(DHCP::DISCOVER); d.requested_ip("10.0.0.50"); d.hostname("host1"); d.end();
      addc(out, "eth/ip/udp/dhcp discover", eth() / ip4() / UDP(67, 68) / d); }
    { DHCP d; d.opcode(2); d.type(DHCP::ACK); d.server_identifier("10.0.0.1"); d.lease_time(3600); d.renewal_time(1800); d.rebind_time(3000); d.subnet_mask("255.255.255.0");
      std::vector<IPv4Address> r = {"10.0.0.1", "10.0.0.2"}; d.routers(r); d.domain_name_servers(r); d.broadcast("10.0.0.255"); d.domain_name("example.com"); d.end();
      addc(out, "eth/ip/udp/dhcp ack", eth() / ip4() / UDP(68, 67) / d); }
    { DHCPv6 d; d.msg_type(DHCPv6::SOLICIT); d.transaction_id(0xabcdef); d.client_id(DHCPv6::duid_type(DHCPv6::duid_ll(1, pattern(6)))); d.elapsed_time(10);
      DHCPv6::option_request_type orq; orq.push_back(DHCPv6::DNS_SERVERS); d.option_request(orq); DHCPv6::ia_na_type ia; ia.id = 1; ia.t1 = 2; ia.t2 = 3; d.ia_na(ia); d.rapid_commit();
      addc(out, "eth/ipv6/udp/dhcpv6 solicit", eth() / ip6() / UDP(547, 546) / d); }
    { DHCPv6 d; d.msg_type(DHCPv6::RELAY_FORWARD); d.hop_count(1); d.link_address("2001:db8::1"); d.peer_address("fe80::1"); d.interface_id(pattern(4)); d.relay_message(pattern(12));
      addc(out, "eth/ipv6/udp/dhcpv6 relay", eth() / ip6() / UDP(547, 547) / d); }
    // ---- RTP, VXLAN
    { RTP r; r.version(2); r.payload_type(96); r.sequence_number(7); r.timestamp(1234); r.ssrc_id(0xcafe); r.add_csrc_id(1); r.add_csrc_id(2); r.extension_bit(1); r.extension_profile(0xbede);
      r.add_extension_data(0x10203040); r.marker_bit(1); addc(out, "eth/ip/udp/rtp[csrc,ext]/raw", eth() / ip4() / UDP(5004, 5004) / r / RawPDU(pattern(16))); }
    { RTP r; r.version(2); r.padding_size(4); addc(out, "ip/udp/rtp(pad4)/raw", ip4() / UDP(5004, 5004) / r / RawPDU(pattern(8))); }
    addc(out, "eth/ip/udp/vxlan/eth/ip/tcp", eth() / ip4() / UDP(4789, 4789) / VXLAN(5000) / eth() / IP("10.0.0.2", "10.0.0.1") / TCP(1, 2));
    // ---- EAPOL
    { RSNEAPOL e; e.key_t(1); e.key_ack(1); e.replay_counter(1); e.nonce(pattern(32).data()); e.key_descriptor(2); addc(out, "eth/rsneapol m1", eth() / e); }
    { RSNEAPOL e; e.key_t(1); e.key_mic(1); e.replay_counter(1); e.nonce(pattern(32, 9).data()); e.mic(pattern(16).data()); e.key(pattern(22)); e.wpa_length(22); addc(out, "eth/rsneapol m2[key]", eth() / e); }
    { RC4EAPOL e; e.key_length(5); e.replay_counter(2); e.key_iv(pattern(16).data()); e.key_flag(1); e.key_index(1); e.key_sign(pattern(16).data()); e.key(pattern(5)); addc(out, "eth/rc4eapol", eth() / e); }
    // ---- RadioTap / 802.11
    { RadioTap rt; addc(out, "radiotap/beacon", rt / Dot11Beacon()); }
    { RadioTap rt; rt.tsft(0x1122334455667788ULL); rt.flags(RadioTap::FCS); rt.rate(2); rt.channel(2412, RadioTap::CCK | RadioTap::TWO_GZ); rt.dbm_signal(-40); rt.dbm_noise(-90); rt.antenna(1);
      Dot11Beacon b; b.addr1(Dot11::BROADCAST); b.addr2(MAC1); b.addr3(MAC1); b.ssid("net"); b.interval(100); b.timestamp(99); Dot11ManagementFrame::rates_type rts = {1.0f, 2.0f, 5.5f, 11.0f};
      b.supported_rates(rts); b.ds_parameter_set(6); b.rsn_information(RSNInformation::wpa2_psk()); b.capabilities().ess(1); b.capabilities().privacy(1);
      addc(out, "radiotap[..fcs]/beacon[ssid,rates,ds,rsn]", rt / b); }
    { Dot11ProbeRequest p; p.addr1(Dot11::BROADCAST); p.addr2(MAC1); p.ssid(""); addc(out, "radiotap/probereq", RadioTap() / p); }
    { Dot11ProbeResponse p; p.addr1(MAC2); p.addr2(MAC1); p.ssid("x"); p.interval(1); addc(out, "radiotap/proberesp", RadioTap() / p); }
    { Dot11AssocRequest a; a.addr1(MAC2); a.addr2(MAC1); a.listen_interval(5); a.ssid("net"); addc(out, "radiotap/assocreq", RadioTap() / a); }
    { Dot11AssocResponse a; a.addr1(MAC2); a.status_code(0); a.aid(0xc001); addc(out, "radiotap/assocresp", RadioTap() / a); }
    { Dot11ReAssocRequest a; a.current_ap(MAC1); a.listen_interval(2); addc(out, "dot11 reassocreq", a); }
    { Dot11ReAssocResponse a; a.status_code(1); a.aid(1); addc(out, "dot11 reassocresp", a); }
    { Dot11Authentication a; a.auth_algorithm(0); a.auth_seq_number(1); a.status_code(0); a.challenge_text("abc"); addc(out, "radiotap/auth[challenge]", RadioTap() / a); }
    { Dot11Deauthentication a; a.reason_code(7); addc(out, "dot11 deauth", a); }
    { Dot11Disassoc a; a.reason_code(8); addc(out, "dot11 disassoc", a); }
    { Dot11Data d = dot11_data(); d.from_ds(1); d.seq_num(100); d.frag_num(2); addc(out, "radiotap/data/snap/ip/udp", RadioTap() / d / SNAP() / ip4() / UDP(1, 2)); }
    { Dot11QoSData d("02:00:00:00:00:01", "02:00:00:00:00:02"); d.addr3("02:00:00:00:00:03"); d.to_ds(1); d.qos_control(5); addc(out, "dot11 qosdata/snap/arp", d / SNAP() / ARP("10.0.0.2", "10.0.0.1", MAC2, MAC1)); }
    { Dot11Data d = dot11_data(); d.to_ds(1); d.from_ds(1); d.addr4("02:00:00:00:00:04"); addc(out, "dot11 data(4addr)/raw", d / RawPDU(pattern(10))); }
    { Dot11Data d = dot11_data(); d.wep(1); addc(out, "dot11 data(protected)/raw", d / RawPDU(pattern(24))); }
    addc(out, "radiotap/ack", RadioTap() / Dot11Ack(MAC1));
    addc(out, "dot11 rts", Dot11RTS(MAC1, MAC2));
    addc(out, "dot11 pspoll", Dot11PSPoll(MAC1, MAC2));
    addc(out, "dot11 cfend", Dot11CFEnd(MAC1, MAC2));
    addc(out, "dot11 endcfack", Dot11EndCFAck(MAC1, MAC2));
    { Dot11BlockAckRequest b(MAC1, MAC2); b.bar_control(3); b.start_sequence(55); b.fragment_number(2); addc(out, "dot11 bar", b); }
    { Dot11BlockAck b(MAC1, MAC2); b.bar_control(3); b.start_sequence(55); b.bitmap(pattern(8).data()); addc(out, "dot11 blockack", b); }
    addc(out, "dot11 control", Dot11Control(MAC1));
    addc(out, "dot11 base", Dot11(MAC1));
    // ---- ICMP / ICMPv6 errors with an extension structure quoting a CHAIN of layers (header_size != size of the quoted datagram)
    for (int n : {0, 3, 40, 99, 100, 101, 120}) {
        ICMP c(ICMP::TIME_EXCEEDED); ICMPExtension e(1, 1); e.payload(pattern(4, 0x31)); c.extensions().add_extension(e);
        addc(out, "ip/icmp ttl+ext/ip/udp/raw(" + std::to_string(n) + ")", ip4() / c / IP("10.0.0.2", "10.0.0.1") / UDP(53, 1000) / RawPDU(pattern(n, 0x32)));
        ICMPv6 c6(ICMPv6::TIME_EXCEEDED); c6.extensions().add_extension(e);
        addc(out, "ipv6/icmpv6 ttl+ext/ipv6/udp/raw(" + std::to_string(n) + ")", ip6() / c6 / ip6() / UDP(53, 1000) / RawPDU(pattern(n, 0x33)));
    }
    { ICMP c(ICMP::DEST_UNREACHABLE); ICMPExtension e(2, 3); e.payload(pattern(8, 0x34)); c.extensions().add_extension(e);
      addc(out, "eth/ip/icmp unreach+ext/ip/tcp/raw", eth() / ip4() / c / IP("10.0.0.2", "10.0.0.1") / TCP(80, 1000) / RawPDU(pattern(9, 0x35))); }
    // ---- MLDv2 report whose records carry auxiliary data of every size 0..9 (counted in 32-bit words), last record odd-sized
    for (int n = 0; n < 10; ++n) {
        ICMPv6 c(ICMPv6::MLD2_REPORT); ICMPv6::multicast_address_records_list l;
        ICMPv6::multicast_address_record r; r.type = 2; r.multicast_address = "ff02::16"; r.aux_data = pattern(8, 0x36); l.push_back(r);
        r.type = 1; r.sources.push_back("2001:db8::5"); r.aux_data = pattern(n, 0x37); l.push_back(r);
        c.multicast_address_records(l);
        addc(out, "eth/ipv6/icmpv6 mld2 report[aux " + std::to_string(n) + "]/raw", eth() / ip6() / c / RawPDU(pattern(6, 0x38)));
    }
    // MLDv2 records whose auxiliary data exceeds 255 bytes (Aux Data Len counts 32-bit words: up to 1020 bytes), first and last record
    for (int n : {252, 256, 260, 1020}) {
        ICMPv6 c(ICMPv6::MLD2_REPORT); ICMPv6::multicast_address_records_list l;
        ICMPv6::multicast_address_record r; r.type = 2; r.multicast_address = "ff02::16"; r.aux_data = pattern(n, 0x36); l.push_back(r);
        r.type = 1; r.sources.push_back("2001:db8::5"); r.aux_data = pattern(8, 0x37); l.push_back(r);
        c.multicast_address_records(l);
        addc(out, "eth/ipv6/icmpv6 mld2 report[big aux " + std::to_string(n) + "]", eth() / ip6() / c);
    }
    // ---- large options / tags / records: length fields near and past one-octet limits
    { ICMPv6 c(ICMPv6::ROUTER_SOLICIT); c.source_link_layer_addr(MAC1); Bytes big = pattern(262, 0x21); c.add_option(ICMPv6::option(253, big.begin(), big.end())); c.mtu(ICMPv6::mtu_type(0, 1280));
      addc(out, "eth/ipv6/icmpv6 rs[slla,opt264,mtu]", eth() / ip6() / c); }
    { ICMPv6 c(ICMPv6::ROUTER_ADVERT); Bytes big = pattern(254, 0x22); c.add_option(ICMPv6::option(200, big.begin(), big.end())); addc(out, "eth/ipv6/icmpv6 ra[opt256]", eth() / ip6() / c); }
    { DHCP d; d.opcode(1); d.type(DHCP::INFORM); Bytes big = pattern(255, 0x23); d.add_option(DHCP::option((DHCP::OptionTypes)43, big.begin(), big.end())); d.hostname("h"); d.end();
      addc(out, "eth/ip/udp/dhcp[opt255]", eth() / ip4() / UDP(67, 68) / d); }
    { DHCPv6 d; d.msg_type(DHCPv6::REQUEST); d.transaction_id(1); Bytes big = pattern(300, 0x24); d.add_option(DHCPv6::option(17, big.begin(), big.end())); d.elapsed_time(1);
      addc(out, "eth/ipv6/udp/dhcpv6[opt300]", eth() / ip6() / UDP(547, 546) / d); }
    { Dot11Beacon b; b.addr2(MAC1); b.ssid("x"); Bytes big = pattern(255, 0x25); b.add_option(Dot11::option(221, big.begin(), big.end())); b.ds_parameter_set(1); addc(out, "radiotap/beacon[tag255]", RadioTap() / b); }
    { PPPoE p; p.code(0x09); Bytes big = pattern(300, 0x26); p.add_tag(PPPoE::tag(PPPoE::VENDOR_SPECIFIC, big.begin(), big.end())); p.service_name("s"); addc(out, "eth/pppoe[tag300]", eth() / p); }
    { TCP t(80, 1025); Bytes big = pattern(34, 0x27); t.add_option(TCP::option((TCP::OptionTypes)253, big.begin(), big.end())); t.mss(536); addc(out, "eth/ip/tcp[opt36,mss]/raw", eth() / ip4() / t / RawPDU(pattern(4))); }
    { IP i = ip4(); Bytes big = pattern(34, 0x28); i.add_option(IP::option(IP::option_identifier((uint8_t)0x9e), big.begin(), big.end())); i.noop(); addc(out, "eth/ip[opt36,nop]/udp/raw", eth() / i / UDP(1, 2) / RawPDU(pattern(4))); }
    { IPv6 i = ip6(); Bytes big = pattern(254, 0x29); i.add_header(IPv6::ext_header(IPv6::DESTINATION_ROUTING_OPTIONS, big.begin(), big.end())); addc(out, "eth/ipv6[dst254]/udp", eth() / i / UDP(1, 2)); }
    { DNS d; d.id(7); d.type(DNS::RESPONSE); d.add_query(DNS::query("t.example", DNS::TXT, DNS::IN)); d.add_answer(DNS::resource("t.example", std::string(255, 'z'), DNS::TXT, DNS::IN, 1));
      addc(out, "ip/udp/dns[txt255]", ip4() / UDP(4000, 53) / d); }
    // payload size boundary family (Ethernet minimum frame padding, odd/even checksums)
    for (int n : {0, 1, 2, 7, 8, 17, 18, 19, 45, 46, 47, 127, 128, 129})
        addc(out, "eth/ip/udp/raw(" + std::to_string(n) + ")", eth() / ip4() / UDP(1000, 2000) / RawPDU(pattern(n, uint8_t(n))));
    for (int n : {0, 1, 5, 6, 7, 25, 26, 27})
        addc(out, "eth/ip/tcp/raw(" + std::to_string(n) + ")", eth() / ip4() / TCP(1000, 2000) / RawPDU(pattern(n, uint8_t(n + 1))));
    for (int n : {0, 1, 41, 42, 43}) addc(out, "eth/dot1q/raw(" + std::to_string(n) + ")", eth() / Dot1Q(9) / RawPDU(pattern(n)));
    for (int n : {0, 1, 8, 9}) addc(out, "eth/ipv6/icmpv6 echo/raw(" + std::to_string(n) + ")", eth() / ip6() / ICMPv6(ICMPv6::ECHO_REPLY) / RawPDU(pattern(n)));
    for (int n : {0, 127, 128, 129, 200}) { ICMP c(ICMP::DEST_UNREACHABLE); ICMPExtension e(2, 3); e.payload(pattern(4)); c.extensions().add_extension(e);
        addc(out, "ip/icmp unreach+ext/raw(" + std::to_string(n) + ")", ip4() / c / RawPDU(pattern(n))); }
}

// generated variants: every (class, setter) with a domain, sample k
inline void generated(std::vector<Built>& out, int variants_per_setter) {
#define API_PAIR(Q, T, N, A, R) { typedef decltype(setter_arg(&Q::N)) Arg; int ns = nsamples<Arg>(); \
    for (int k = 0; k < ns && k < variants_per_setter; ++k) { std::vector<PDU*> bs = make_bases((Q*)0); int bi = 0; \
      for (PDU* o : bs) { \
        if (bi && (std::is_arithmetic<Arg>::value || k > 0)) { delete o; ++bi; continue; }   /* extra message types: first sample of non-scalar (option) setters only */ \
        try { static_cast<Q*>(o)->N(sample<Arg>(k)); const std::type_info* ti = &typeid(*o); add(out, std::string(#T "." #N "#") + std::to_string(k) + (bi ? "@" + std::to_string(bi) : ""), wrap(o), ti); } \
        catch (std::exception& e_) { if (!mc::tins_exc(e_)) throw; delete o; } ++bi; } } }
#include "api.inc"
#undef API_PAIR
}

inline std::vector<Built> grammar(int variants_per_setter = 2) {
    std::vector<Built> g;
    hand_written(g);
    generated(g, variants_per_setter);
    return g;
}

}  // namespace mc
