// Finite argument domains for every value type a libtins setter takes: nsamples<T>() boundary values,
// sample<T>(k) the k-th.  Aggregates (generated from api.inc): sample 0 = every field at its sample 0,
// then for each field each of its other samples with the remaining fields at sample 0 (deviation bound 1).
#pragma once
#include "show.hpp"
#include <limits>

namespace mc {

template <class T> int nsamples();
template <class T> T sample(int k);

namespace dom {
// ---- scalars
template <class T> typename std::enable_if<std::is_same<T, bool>::value, int>::type n_(T*, rank<9>) { return 2; }
template <class T> typename std::enable_if<std::is_same<T, bool>::value, T>::type get_(T*, int k, rank<9>) { return k & 1; }
template <class T> typename std::enable_if<std::is_integral<T>::value && !std::is_same<T, bool>::value, int>::type n_(T*, rank<8>) { return 7; }
template <class T> typename std::enable_if<std::is_integral<T>::value && !std::is_same<T, bool>::value, T>::type get_(T*, int k, rank<8>) {
    typedef typename std::make_unsigned<T>::type U;
    const U mx = std::numeric_limits<U>::max();
    const U v[7] = {U(0), U(1), mx, U(mx - 1), U(mx / 2 + 1), U(mx / 3), U(mx / 3 * 2)};   // 0,1,ff,fe,80,55,aa
    return (T)v[k % 7];
}
template <class T> typename std::enable_if<std::is_floating_point<T>::value, int>::type n_(T*, rank<8>) { return 4; }
template <class T> typename std::enable_if<std::is_floating_point<T>::value, T>::type get_(T*, int k, rank<8>) { static const float v[4] = {1.0f, 5.5f, 11.0f, 54.0f}; return (T)v[k % 4]; }
// enumerations: the declared enumerators are the in-range values (generated lists); unknown enums fall back to 0..3
template <class T> struct EnumValues { static std::vector<T> get() { return std::vector<T>(); } };
#define API_ENUM_BEGIN(Q) template <> struct EnumValues<Q> { static std::vector<Q> get() { std::vector<Q> v; std::set<long long> seen;
#define API_ENUMERATOR(Q, E) if (seen.insert((long long)E).second && v.size() < 8) v.push_back(E);
#define API_ENUM_END(Q) return v; } };
#include "api.inc"
#undef API_ENUM_BEGIN
#undef API_ENUMERATOR
#undef API_ENUM_END
template <class T> typename std::enable_if<std::is_enum<T>::value, int>::type n_(T*, rank<8>) { int n = (int)EnumValues<T>::get().size(); return n ? n : 4; }
template <class T> typename std::enable_if<std::is_enum<T>::value, T>::type get_(T*, int k, rank<8>) { std::vector<T> v = EnumValues<T>::get(); return v.empty() ? static_cast<T>(k % 4) : v[k % v.size()]; }
template <size_t n> int n_(Tins::small_uint<n>*, rank<9>) { return n == 1 ? 2 : 5; }
template <size_t n> Tins::small_uint<n> get_(Tins::small_uint<n>*, int k, rank<9>) {
    typedef typename Tins::small_uint<n>::repr_type R;
    const uint64_t mx = (n >= 64) ? ~0ull : ((1ull << n) - 1);
    const uint64_t v[5] = {0, 1, mx, mx - 1, (mx >> 1) + 1};
    return Tins::small_uint<n>((R)v[k % (n == 1 ? 2 : 5)]);
}
// ---- addresses
template <class T> typename std::enable_if<std::is_same<T, Tins::IPv4Address>::value, int>::type n_(T*, rank<9>) { return 5; }
template <class T> typename std::enable_if<std::is_same<T, Tins::IPv4Address>::value, T>::type get_(T*, int k, rank<9>) {
    static const char* v[5] = {"10.1.2.3", "1.0.0.255", "255.255.255.255", "192.168.0.1", "128.0.0.0"};
    return Tins::IPv4Address(v[k % 5]);
}
template <class T> typename std::enable_if<std::is_same<T, Tins::IPv6Address>::value, int>::type n_(T*, rank<9>) { return 5; }
template <class T> typename std::enable_if<std::is_same<T, Tins::IPv6Address>::value, T>::type get_(T*, int k, rank<9>) {
    static const char* v[5] = {"2001:db8::1", "::1", "ffff:ffff:ffff:ffff:ffff:ffff:ffff:ffff", "fe80::102:304:506:708", "::"};
    return Tins::IPv6Address(v[k % 5]);
}
template <size_t n> int n_(Tins::HWAddress<n>*, rank<9>) { return 4; }
template <size_t n> Tins::HWAddress<n> get_(Tins::HWAddress<n>*, int k, rank<9>) {
    uint8_t b[n];
    for (size_t i = 0; i < n; ++i) b[i] = k % 4 == 0 ? uint8_t(i + 1) : k % 4 == 1 ? 0xff : k % 4 == 2 ? 0 : uint8_t(0xa0 + 7 * i);
    return Tins::HWAddress<n>(b);
}
// ---- strings, containers, pairs
template <class T> typename std::enable_if<std::is_same<T, std::string>::value, int>::type n_(T*, rank<9>) { return 4; }
template <class T> typename std::enable_if<std::is_same<T, std::string>::value, T>::type get_(T*, int k, rank<9>) {
    static const char* v[4] = {"example.com", "a", "", "the-quick-brown-fox.jumps-over.the-lazy-dog.example.org"};
    return v[k % 4];
}
template <class A, class B> int n_(std::pair<A, B>*, rank<9>) { return std::max(nsamples<A>(), nsamples<B>()); }
template <class A, class B> std::pair<A, B> get_(std::pair<A, B>*, int k, rank<9>) { return std::make_pair(sample<A>(k), sample<B>(k + 1)); }
// sequence containers: lengths 4,0,1,6,8,9,3,7 (4/8: word-aligned blobs; 6: ND option payload unit; 9 crosses the 8-byte small-buffer of PDUOption;
// 7 = 7 mod 8: the one residue for which an IPv6 extension header's padded size and its data size give different 8-byte unit counts)
// byte blobs get a ninth sample of 300 bytes where the caller says the format's length fields are 16 bits wide (large_blobs(): DHCPv6, PPPoE;
// the high byte must be written too) - formats with 8-bit lengths cannot represent such an argument
inline bool& large_blobs() { static bool b = false; return b; }
template <class T> auto n_(T*, rank<5>) -> decltype(std::declval<T>().push_back(std::declval<typename T::value_type>()), int()) { return (large_blobs() && std::is_same<typename T::value_type, uint8_t>::value) ? 9 : 8; }
template <class T> auto get_(T*, int k, rank<5>) -> decltype(std::declval<T>().push_back(std::declval<typename T::value_type>()), T()) {
    static const int len[9] = {4, 0, 1, 6, 8, 9, 3, 7, 300};
    const int nl = (large_blobs() && std::is_same<typename T::value_type, uint8_t>::value) ? 9 : 8;
    T out;
    for (int i = 0; i < len[k % nl]; ++i) out.push_back(sample<typename T::value_type>(i + k));
    return out;
}
// ---- generated aggregates
#define API_STRUCT_BEGIN(Q, T) \
    template <class X> typename std::enable_if<std::is_same<X, Q>::value, int>::type n_(X*, rank<9>) { X v; (void)v; int n = 1;
#define API_FIELD_P(Q, N) n += nsamples<typename std::decay<decltype(v.N)>::type>() - 1;
#define API_FIELD_A(Q, N) n += 2;
#define API_FIELD_B(Q, N) n += 1;
#define API_STRUCT_END(Q, T) return n; }
#include "api.inc"
#undef API_STRUCT_BEGIN
#undef API_FIELD_P
#undef API_FIELD_A
#undef API_FIELD_B
#undef API_STRUCT_END

template <class F, size_t N> void fill_array(F (&a)[N], int j) { for (size_t i = 0; i < N; ++i) a[i] = sample<F>(j == 0 ? 0 : (int)(j + i)); }

#define API_STRUCT_BEGIN(Q, T) \
    template <class X> typename std::enable_if<std::is_same<X, Q>::value, X>::type get_(X*, int k, rank<9>) { X v; int base = 1; (void)base;
#define API_FIELD_P(Q, N) { typedef typename std::decay<decltype(v.N)>::type F; int ns = nsamples<F>(); \
        v.N = sample<F>(k >= base && k < base + ns - 1 ? k - base + 1 : 0); base += ns - 1; }
#define API_FIELD_A(Q, N) { fill_array(v.N, k >= base && k < base + 2 ? k - base + 1 : 0); base += 2; }
#define API_FIELD_B(Q, N) { v.N = (k == base) ? 1 : 0; base += 1; }
#define API_STRUCT_END(Q, T) return v; }
#include "api.inc"
#undef API_STRUCT_BEGIN
#undef API_FIELD_P
#undef API_FIELD_A
#undef API_FIELD_B
#undef API_STRUCT_END

// unknown types: no samples
template <class T> int n_(T*, rank<0>) { return 0; }
template <class T> T get_(T*, int, rank<0>) { return T(); }
}  // namespace dom

template <class T> int nsamples() { return dom::n_((T*)0, rank<9>()); }
template <class T> T sample(int k) { return dom::get_((T*)0, k, rank<9>()); }

}  // namespace mc
