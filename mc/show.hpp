// Canonical printers for every value type libtins getters return, and view(PDU) = the list of
// (class.getter -> printed value | !exception) over all layers.  Built on gen/api.inc.
#pragma once
#include "common.hpp"
#include "all_tins.hpp"
#include <list>
#include <type_traits>

namespace mc {

// libtins' own error types: everything derived from exception_base, plus small_uint's value_too_large (derives from std::exception)
inline bool tins_exc(const std::exception& e) { return dynamic_cast<const Tins::exception_base*>(&e) != 0 || dynamic_cast<const Tins::value_too_large*>(&e) != 0; }

template <int N> struct rank : rank<N - 1> {};
template <> struct rank<0> {};

template <class T> std::string show(const T& v);

// ---- prototypes of generated struct printers (so that containers of them print)
#define MC_EXACT(X, Q) typename std::enable_if<std::is_same<X, Q>::value, std::string>::type
#define API_STRUCT_BEGIN(Q, T) template <class X> MC_EXACT(X, Q) show_(const X& v, rank<9>);
#define API_VSTRUCT_BEGIN(Q, T) template <class X> MC_EXACT(X, Q) show_(const X& v, rank<9>);
#include "api.inc"
#undef API_STRUCT_BEGIN
#undef API_VSTRUCT_BEGIN

template <class T> typename std::enable_if<std::is_same<T, bool>::value, std::string>::type show_(const T& v, rank<8>) { return v ? "1" : "0"; }
template <class X> MC_EXACT(X, std::string) show_(const X& v, rank<8>) { return jstr(v); }
inline std::string show_(const char* v, rank<8>) { return v ? jstr(v) : "null"; }
inline std::string show_(const uint8_t* v, rank<8>) { return v ? "ptr" : "null"; }
template <class X> MC_EXACT(X, std::vector<uint8_t>) show_(const X& v, rank<8>) { return "x" + hex(v); }
template <size_t n> std::string show_(const Tins::small_uint<n>& v, rank<8>) { return std::to_string((unsigned long long)(typename Tins::small_uint<n>::repr_type)v); }
template <size_t n> std::string show_(const Tins::HWAddress<n>& v, rank<8>) { return v.to_string(); }
template <class X> MC_EXACT(X, Tins::IPv4Address) show_(const X& v, rank<8>) { return v.to_string(); }
template <class X> MC_EXACT(X, Tins::IPv6Address) show_(const X& v, rank<8>) { return v.to_string(); }
template <class O, class P> std::string show_(const Tins::PDUOption<O, P>& v, rank<8>) {
    return "opt(" + show(v.option()) + ",len=" + std::to_string(v.length_field()) + ",x" + hex(v.data_ptr(), v.data_size()) + ")";
}
template <class A, class B> std::string show_(const std::pair<A, B>& v, rank<8>) { return "(" + show(v.first) + "," + show(v.second) + ")"; }
template <class T> typename std::enable_if<std::is_integral<T>::value, std::string>::type show_(const T& v, rank<7>) {
    return std::is_signed<T>::value ? std::to_string((long long)v) : std::to_string((unsigned long long)v);
}
template <class T> typename std::enable_if<std::is_floating_point<T>::value, std::string>::type show_(const T& v, rank<7>) { char b[40]; snprintf(b, sizeof b, "%g", (double)v); return b; }
template <class T> typename std::enable_if<std::is_enum<T>::value, std::string>::type show_(const T& v, rank<7>) { return std::to_string((long long)v); }
// containers
template <class T> auto show_(const T& v, rank<5>) -> decltype(v.begin(), v.end(), std::string()) {
    std::string o = "[";
    bool f = true;
    for (auto it = v.begin(); it != v.end(); ++it) { if (!f) o += ","; f = false; o += show(*it); }
    return o + "]";
}
template <class T> std::string show_(const T&, rank<0>) { return std::string("<?") + typeid(T).name() + ">"; }

template <class T> std::string show(const T& v) { return show_(v, rank<9>()); }

// ---- generated struct printers
#define API_STRUCT_BEGIN(Q, T) template <class X> MC_EXACT(X, Q) show_(const X& v, rank<9>) { std::string o = "{";
#define API_FIELD(Q, N) o += #N "=" + show(v.N) + ";";
#define API_STRUCT_END(Q, T) return o + "}"; }
#define API_VSTRUCT_BEGIN(Q, T) template <class X> MC_EXACT(X, Q) show_(const X& v, rank<9>) { std::string o = "{";
#define API_VGETTER(Q, N) try { o += #N "=" + show(v.N()) + ";"; } catch (Tins::exception_base& e) { o += #N "=!" + std::string(typeid(e).name()) + ";"; }
#define API_VSTRUCT_END(Q, T) return o + "}"; }
#include "api.inc"
#undef API_STRUCT_BEGIN
#undef API_FIELD
#undef API_STRUCT_END
#undef API_VSTRUCT_BEGIN
#undef API_VGETTER
#undef API_VSTRUCT_END

// ---------------------------------------------------------------- view
struct Entry { std::string key, val; bool threw; };
typedef std::vector<Entry> View;

// Accessor outcome classification for C01: only libtins exceptions may escape a read accessor.
struct AccessorFault { std::string key, what; };

template <class F> void view_call(View& out, std::vector<AccessorFault>* faults, const char* key, F f) {
    Entry e{key, "", false};
    try { e.val = f(); }
    catch (Tins::exception_base& ex) { e.threw = true; e.val = std::string("!") + typeid(ex).name(); }
    catch (std::exception& ex) {
        e.threw = true; e.val = std::string("!!") + typeid(ex).name();
        if (faults) faults->push_back(AccessorFault{key, std::string(typeid(ex).name()) + ": " + ex.what()});
    }
    out.push_back(e);
}

// all generated getters applicable to this one layer (dynamic type incl. bases); the applicable subset is cached per dynamic type
struct GetterDesc { const char* key; bool (*applies)(const Tins::PDU&); std::string (*call)(const Tins::PDU&); };
inline const std::vector<GetterDesc>& getter_table() {
    static std::vector<GetterDesc> t;
    if (t.empty()) {
#define API_GETTER(Q, T, N, R) \
        t.push_back(GetterDesc{#T "." #N, [](const Tins::PDU& p) { return dynamic_cast<const Q*>(&p) != 0; }, \
                               [](const Tins::PDU& p) { return show(static_cast<const Q&>(p).N()); }});
#define API_GETTER_NC(Q, T, N, R) \
        t.push_back(GetterDesc{#T "." #N, [](const Tins::PDU& p) { return dynamic_cast<const Q*>(&p) != 0; }, \
                               [](const Tins::PDU& p) { return show(const_cast<Q&>(static_cast<const Q&>(p)).N()); }});   /* read accessor not declared const */
#include "api.inc"
#undef API_GETTER
#undef API_GETTER_NC
    }
    return t;
}
inline const std::vector<int>& getters_of(const Tins::PDU& p) {
    static std::map<std::string, std::vector<int> > cache;
    const char* tn = typeid(p).name();
    auto it = cache.find(tn);
    if (it != cache.end()) return it->second;
    std::vector<int>& v = cache[tn];
    const auto& t = getter_table();
    for (size_t i = 0; i < t.size(); ++i) if (t[i].applies(p)) v.push_back((int)i);
    return v;
}
inline void view_layer(const Tins::PDU& p, View& out, std::vector<AccessorFault>* faults = 0) {
    const auto& t = getter_table();
    for (int i : getters_of(p)) { const GetterDesc& g = t[i]; view_call(out, faults, g.key, [&g, &p]() { return g.call(p); }); }
}

inline View view(const Tins::PDU& root, std::vector<AccessorFault>* faults = 0) {
    View v;
    int depth = 0;
    for (const Tins::PDU* p = &root; p; p = p->inner_pdu(), ++depth) {
        v.push_back(Entry{"#layer" + std::to_string(depth), std::to_string((int)p->pdu_type()), false});
        view_layer(*p, v, faults);
    }
    return v;
}

inline std::string view_str(const View& v) {
    std::string o;
    for (auto& e : v) o += e.key + "=" + e.val + "\n";
    return o;
}

}  // namespace mc
