// Serialization monitor (C02): re-implements the six-line recursion of PDU::serialize(buf, n) so that the region
// written by the layers below can be snapshotted before a layer's own write_serialization() and compared afterwards.
#pragma once
#include "common.hpp"
#include "all_tins.hpp"

namespace mc {

struct SerResult {
    bool ok = false;
    std::string sig, detail;     // violation (empty when ok)
    Bytes bytes;
    bool not_serializable = false;
};

inline const char* tname(const Tins::PDU& p) {
    static std::string s;
    s = typeid(p).name();
    return s.c_str();
}
inline std::string clsname(const Tins::PDU& p) {
    std::string n = typeid(p).name();           // N4Tins2IPE
    size_t i = n.find("Tins");
    if (i != std::string::npos) { n = n.substr(i + 4); size_t j = 0; while (j < n.size() && isdigit((unsigned char)n[j])) ++j; n = n.substr(j); if (!n.empty() && n.back() == 'E') n.pop_back(); }
    return n;
}

// monitored recursion; buf has exactly total_sz bytes available
inline void mon_serialize(Tins::PDU& p, uint8_t* buf, uint32_t total_sz, std::string& sig, std::string& detail) {
    uint32_t hs = p.header_size(), ts = p.trailer_size();
    uint32_t sz = hs + ts;
    if (total_sz < sz) { if (sig.empty()) { sig = "ser:size-accounting:" + clsname(p); detail = "layer needs " + std::to_string(sz) + " bytes, region has " + std::to_string(total_sz); } return; }
    p.prepare_for_serialize();
    Bytes snap;
    if (p.inner_pdu()) {
        mon_serialize(*p.inner_pdu(), buf + hs, total_sz - sz, sig, detail);
        snap.assign(buf + hs, buf + hs + (total_sz - sz));
    }
    p.write_serialization(buf, total_sz);
    if (p.inner_pdu() && sig.empty()) {
        for (uint32_t i = 0; i < snap.size(); ++i)
            if (buf[hs + i] != snap[i]) {
                sig = "ser:cross-layer-overwrite:" + clsname(p);
                detail = clsname(p) + "::write_serialization changed byte " + std::to_string(i) + " of the region produced by the layers below (header_size " +
                         std::to_string(hs) + ", trailer_size " + std::to_string(ts) + ")";
                break;
            }
    }
}

inline bool has_unserializable(const Tins::PDU& p) {
    for (const Tins::PDU* q = &p; q; q = q->inner_pdu())
        if (q->pdu_type() == Tins::PDU::PPI || q->pdu_type() == Tins::PDU::PKTAP) return true;
    return false;
}

// root IP with source 0.0.0.0 asks the host routing table when serialized: environment, outside every property
inline bool needs_environment(const Tins::PDU& p) {
    if (p.pdu_type() == Tins::PDU::IP && !p.parent_pdu()) {
        const Tins::IP& ip = static_cast<const Tins::IP&>(p);
        return ip.src_addr() == Tins::IPv4Address();
    }
    return false;
}

inline SerResult checked_serialize(Tins::PDU& p) {
    SerResult r;
    uint32_t expect = 0;
    for (const Tins::PDU* q = &p; q; q = q->inner_pdu()) expect += q->header_size() + q->trailer_size();
    if (p.size() != expect) { r.sig = "ser:size-not-sum-of-layers"; r.detail = "size()=" + std::to_string(p.size()) + " sum=" + std::to_string(expect); return r; }
    // pass 1: monitored recursion on an exactly-sized heap block (zero-filled like PDU::serialize()'s vector)
    {
        uint8_t* b = (uint8_t*)malloc(expect ? expect : 1);
        memset(b, 0, expect ? expect : 1);
        try { mon_serialize(p, b, expect, r.sig, r.detail); }
        catch (Tins::pdu_not_serializable&) { r.not_serializable = true; }
        catch (std::exception& e) { r.sig = std::string("ser:exception:") + typeid(e).name() + ":" + clsname(p); r.detail = e.what(); }
        Bytes mon(b, b + expect);
        free(b);
        if (r.not_serializable) {
            if (!has_unserializable(p)) { r.sig = "ser:exception:pdu_not_serializable:" + clsname(p); }
            else r.ok = true;
            return r;
        }
        if (!r.sig.empty()) return r;
        r.bytes = mon;
    }
    // pass 2: the public serialize() must give the same bytes and exactly size() of them
    try {
        Bytes pub = p.serialize();
        if (pub.size() != expect) { r.sig = "ser:length-differs-from-size"; r.detail = "serialize() returned " + std::to_string(pub.size()) + " size() " + std::to_string(expect); return r; }
        if (pub != r.bytes) {   // binds the re-implemented recursion to the real PDU::serialize
            size_t i = 0; while (i < pub.size() && pub[i] == r.bytes[i]) ++i;
            r.sig = "ser:monitor-disagrees-with-serialize"; r.detail = "byte " + std::to_string(i) + " differs between PDU::serialize() and the monitored recursion";
            return r;
        }
    }
    catch (std::exception& e) { r.sig = std::string("ser:exception:") + typeid(e).name() + ":" + clsname(p); r.detail = e.what(); return r; }
    r.ok = true;
    return r;
}

}  // namespace mc
